module L = Stdlib.List
module String = Stdlib.String
(* C13 correspondence.
   (a) WebSocket adapter: the REAL WebsocketStreamWrapper over an in-memory transport carrying frames produced by
       tungstenite's server side (harness WSREAD / WSWRITE) against the extracted WsCursor.ws_read / ws_write, read by read
       (tie), on random message lists x buffer sizes x arrival patterns; monitors on the implementation (property): the bytes
       delivered by successive reads are the concatenation of the data payloads, no read reports more than the buffer holds;
       what a server decodes from the transport is what the write calls reported as written.
   (b) REAL tokio / threaded clients on scripted transports (harness RUN): partial writes / would-block / interrupted writes
       and read fragmentation; monitor: the transport received exactly CONNECT ++ the submitted publishes, in order (reference
       encoding below), and every operation got exactly one result; submissions racing close().
   Schedules of the real loops are SAMPLED.  Corpus / replay lines: `WSREAD ...`, `WSWRITE ...`, `bytes RUN ...`, `results RUN ...`. *)
open Util
open BinNums
open Datatypes
open WsCursor

type fail = { kind : string; signature : string; detail : string }

let hex_body (l : int list) = String.concat "" (L.map (Printf.sprintf "%02x") l)
let nl (l : int list) = L.map n_of_int l
let il (l : coq_N list) = L.map int_of_n l

(* ---- (a) WebSocket ---- *)
type item = IBin of int list | IText of int list | IPing | IBlock | IFail
let item_token = function
  | IBin d -> "b" ^ hex_body d | IText d -> "t" ^ hex_body d | IPing -> "p" | IBlock -> "|" | IFail -> "!"
let item_model = function
  | IBin d -> RMsg (MBinary (nl d)) | IText d -> RMsg (MText (nl d)) | IPing -> RMsg MOther | IBlock -> RWouldBlock | IFail -> RError
let parse_item (t : string) : item =
  let body () = il (bytes_of_hex ("x" ^ String.sub t 1 (String.length t - 1))) in
  match t.[0] with 'b' -> IBin (body ()) | 't' -> IText (body ()) | 'p' -> IPing | '|' -> IBlock | '!' -> IFail | _ -> failwith ("bad ws item " ^ t)

let ws_read_case (h : harness) (size : int) (reads : int) (items : item list) : fail list * int =
  let cmd = Printf.sprintf "WSREAD %d %d %s" size reads (String.concat " " (L.map item_token items)) in
  let reply = ask h cmd in
  let fails = ref [] in
  let add kind signature detail = fails := { kind; signature; detail = cmd ^ " -> " ^ reply ^ " :: " ^ detail } :: !fails in
  (match split_ws reply with
   | "ok" :: results when L.length results = reads ->
     (* model, read by read *)
     let w = ref w_init and sock = ref (L.map item_model items) in
     let delivered_impl = Buffer.create 64 and over = ref false in
     L.iteri (fun i res ->
         let (((w', sock'), data), r) = ws_read !w !sock (n_of_int size) in
         w := w'; sock := sock';
         let model = (match r with
             | ROk n -> let n = int_of_n n in Printf.sprintf "ok:%d:x%s" n (hex_body (il data))
             | RErrWouldBlock -> "wouldblock" | RErrOther -> "err") in
         let impl_norm = (match String.split_on_char ':' res with "err" :: _ -> "err" | _ -> res) in
         if impl_norm <> model then add "tie" "ws-read-model" (Printf.sprintf "read #%d: implementation %s, model %s" (i + 1) res model);
         (match String.split_on_char ':' res with
          | ["ok"; n; hx] -> let n = int_of_string n in
            if n > size then over := true;
            Buffer.add_string delivered_impl (String.sub hx 1 (String.length hx - 1))
          | ["panic"] -> add "property" "D15:ws-read-panic" "the adapter panicked"
          | _ -> ())) results;
     let expected = hex_body (L.concat_map (function IBin d | IText d -> d | _ -> []) items) in
     let got = Buffer.contents delivered_impl in
     if !over then add "property" "D15:ws-read-reports-more-than-the-buffer" "a read returned Ok(n) with n larger than the buffer (the driver slices inbound_data[..n]: out of range)"
     else if got <> expected && not (L.mem IFail items) then
       (* all data must have been delivered after enough reads: only compare when the reads were enough to drain *)
       (let enough = String.length got >= String.length expected || L.exists (fun r -> r = "wouldblock") results in
        if enough then add "property" "D15:ws-read-stream-corrupted" (Printf.sprintf "bytes delivered x%s, payload concatenation x%s" got expected))
   | _ -> add "tie" "ws-read" "unexpected answer");
  (!fails, reads)

type wop = OWrite of int list | OFlush
let ws_write_case (h : harness) (script : string) (ops : wop list) : fail list * int =
  let cmd = Printf.sprintf "WSWRITE %s %s" script (String.concat " " (L.map (function OWrite d -> "w" ^ hex_body d | OFlush -> "f") ops)) in
  let reply = ask h cmd in
  let fails = ref [] in
  let add kind signature detail = fails := { kind; signature; detail = cmd ^ " -> " ^ reply ^ " :: " ^ detail } :: !fails in
  (match split_ws reply with
   | "ok" :: rest ->
     let results = L.filter (fun t -> String.length t < 5 || String.sub t 0 5 <> "wire=") rest in
     let wire = (try L.find (fun t -> String.length t >= 5 && String.sub t 0 5 = "wire=") rest with Not_found -> "wire=[]") in
     let reported = L.concat (L.map2 (fun op res -> match op, String.split_on_char ':' res with
         | OWrite d, ["ok"; n] -> [hex_body (L.filteri (fun i _ -> i < int_of_string n) d)] | _ -> []) ops results) in
     let wire_payloads = L.map (fun p -> if String.length p > 0 && p.[0] = 'x' then String.sub p 1 (String.length p - 1) else p)
         (let s = String.sub wire 6 (String.length wire - 7) in if s = "" then [] else String.split_on_char ',' s) in
     if String.concat "" wire_payloads <> String.concat "" reported then
       add "property" "D15b:ws-write-duplicated" (Printf.sprintf "the write calls reported x%s as written, a server decodes x%s"
                                                    (String.concat "" reported) (String.concat "" wire_payloads));
     (* model: a would-block answer leaves the frame queued *)
     let o = ref out_init in
     let sc = ref (if script = "-" then [] else String.split_on_char ',' script) in
     L.iter2 (fun op res ->
         match op with
         | OWrite d ->
           (* one transport write per flush attempt in the model: blocked iff the next script entry is b *)
           let t = (match !sc with "b" :: r -> sc := r; TBlock | _ :: r -> sc := r; TOk | [] -> TOk) in
           let (o', r) = ws_write !o (nl d) t in
           o := o';
           let model = (match r with WrOk n -> Printf.sprintf "ok:%d" (int_of_n n) | WrWouldBlock -> "wouldblock") in
           if model <> res then add "tie" "ws-write-model" (Printf.sprintf "write: implementation %s, model %s" res model)
         | OFlush ->
           (* tungstenite touches the transport only when something is queued *)
           if (!o).o_queue <> [] then begin
             let t = (match !sc with "b" :: r -> sc := r; TBlock | _ :: r -> sc := r; TOk | [] -> TOk) in
             let (o', okf) = ws_flush !o t in
             o := o';
             let model = if okf then "ok" else "wouldblock" in
             if model <> res then add "tie" "ws-write-model" (Printf.sprintf "flush: implementation %s, model %s" res model)
           end) ops results
   | _ -> add "tie" "ws-write" "unexpected answer");
  (!fails, L.length ops)

(* ---- (b) real drivers ---- *)
let connect_hex = "100f00044d515454050200000000026161"
let payload len = L.init len (fun i -> 97 + (i mod 26))
let publish_hex (qos : int) (pid : int) (len : int) : string =
  if qos = 0 then hex_body ([0x30; 4 + len; 0; 1; 0x74; 0] @ payload len)
  else hex_body ([0x32; 6 + len; 0; 1; 0x74; pid lsr 8; pid land 255; 0] @ payload len)

let field (reply : string) (key : string) : string =
  let toks = split_ws reply in
  try let t = L.find (fun t -> String.length t > String.length key && String.sub t 0 (String.length key + 1) = key ^ "=") toks in
    String.sub t (String.length key + 1) (String.length t - String.length key - 1) with Not_found -> ""
let parse_list (s : string) : string list =
  let n = String.length s in
  if n < 2 then [] else let inner = String.sub s 1 (n - 2) in if inner = "" then [] else String.split_on_char ',' inner

let check_results (add : string -> string -> string -> unit) (driver : string) (reply : string) =
  let res = parse_list (field reply "res") in
  L.iter (fun r ->
      match String.split_on_char ':' r with
      | [p; "NONE"] -> add "property" ("D16:result-never-delivered:" ^ driver) (Printf.sprintf "operation %s never got a result (receiver would wait forever / callback never called)" p)
      | _ ->
        let has_twice = (let n = String.length r in let rec go i = i + 5 <= n && (String.sub r i 5 = "TWICE" || go (i + 1)) in go 0) in
        if has_twice then add "property" ("result-delivered-twice:" ^ driver) r) res

let bytes_case (h : harness) (scenario : string) (pubs : (int * int) list) : fail list * int =
  let reply = ask h scenario in
  let fails = ref [] in
  let add kind signature detail = fails := { kind; signature; detail = scenario ^ " -> " ^ reply ^ " :: " ^ detail } :: !fails in
  let driver = (match split_ws scenario with _ :: d :: _ -> d | _ -> "?") in
  if String.length reply < 2 || String.sub reply 0 2 <> "ok" then add "property" ("real-run:" ^ reply) "the scenario did not complete"
  else begin
    let conns = String.split_on_char '|' (let c = field reply "conns" in String.sub c 1 (String.length c - 2)) in
    let wire = (match conns with c :: _ -> (match String.split_on_char '/' c with w :: _ -> String.sub w 1 (String.length w - 1) | [] -> "") | [] -> "") in
    let pid = ref 0 in
    let expected = connect_hex ^ String.concat "" (L.map (fun (q, len) -> if q = 1 then incr pid; publish_hex q !pid len) pubs) in
    if wire <> expected then
      add "property" ("bytes-out:" ^ driver) (Printf.sprintf "the transport received x%s, the engine's packets are x%s" wire expected);
    check_results add driver reply;
    let res = parse_list (field reply "res") in
    if L.length res <> L.length pubs then add "tie" "real-run:results" "result count";
    L.iter (fun r -> match String.split_on_char ':' r with [_; "ok"] | [_; "NONE"] -> () | _ -> add "property" ("publish-failed:" ^ driver) r) res
  end;
  (!fails, 1)

let results_case (h : harness) (scenario : string) : fail list * int =
  let reply = ask h scenario in
  let fails = ref [] in
  let add kind signature detail = fails := { kind; signature; detail = scenario ^ " -> " ^ reply ^ " :: " ^ detail } :: !fails in
  let driver = (match split_ws scenario with _ :: d :: _ -> d | _ -> "?") in
  if String.length reply < 2 || String.sub reply 0 2 <> "ok" then add "property" ("real-run:" ^ reply) "the scenario did not complete"
  else check_results add driver reply;
  (!fails, 1)

(* ---- generation ---- *)
let gen_bytes r n = L.init n (fun _ -> rand_int r 256)
let gen_ascii r n = L.init n (fun _ -> 32 + rand_int r 90)
let gen_ws_read r =
  let size = pick r [1; 2; 3; 4; 8; 16; 64] in
  let paced = chance r 35 in
  let n = 1 + rand_int r 6 in
  let items = L.concat (L.init n (fun _ ->
      let len = if paced then 1 + rand_int r (max 1 (size - 1)) else (if chance r 10 then 0 else 1 + rand_int r (if chance r 25 then 3 * size else size)) in
      let len = if paced then min len (size - 1) else len in
      let m = if paced && len = 0 then [] else [if chance r 80 then IBin (gen_bytes r len) else IText (gen_ascii r len)] in
      let m = if (not paced) && chance r 10 then IPing :: m else m in
      if paced then m @ [IBlock] else if chance r 40 then m @ [IBlock] else if chance r 4 then m @ [IFail] else m)) in
  let total = L.fold_left (fun a i -> match i with IBin d | IText d -> a + L.length d | _ -> a) 0 items in
  (size, n + 2 + total / (max 1 size) + 2, items)
let gen_ws_write r =
  let n = 1 + rand_int r 4 in
  let script = if chance r 40 then "-" else String.concat "," (L.init (1 + rand_int r 4) (fun _ -> if chance r 45 then "b" else "100000")) in
  (script, L.concat (L.init n (fun _ -> let d = gen_bytes r (1 + rand_int r 12) in
                                 (* the driver offers the same bytes again after a would-block *)
                                 [OWrite d] @ (if chance r 50 then [OWrite d] else []) @ (if chance r 60 then [OFlush] else []))))
let gen_bytes_scenario r =
  let driver = if rand_bool r then "tokio" else "threaded" in
  let pubs = L.init (1 + rand_int r 4) (fun _ -> (rand_int r 2, rand_int r 40)) in
  let w = String.concat "," (L.init (2 + rand_int r 14) (fun _ -> let j = rand_int r 100 in
                                                         if j < 65 then string_of_int (1 + rand_int r 12) else if j < 88 then "b" else if driver = "threaded" then "i" else "b")) in
  let frag = 1 + rand_int r 4 in
  (Printf.sprintf "RUN %s 200 start wait:Success:1 %s sleep:150 ; conn=ok w=%s ack=ok frag=%d end=stay" driver
     (String.concat " " (L.map (fun (q, len) -> Printf.sprintf "pub%d:%d" q len) pubs)) w frag, pubs)
let gen_results_scenario r =
  let driver = if rand_bool r then "tokio" else "threaded" in
  let op () = let k = rand_int r 100 in
    if driver = "threaded" && k < 30 then Printf.sprintf "pubcb%d:%d" (rand_int r 2) (rand_int r 20) else Printf.sprintf "pub%d:%d" (rand_int r 2) (rand_int r 20) in
  let before = L.init (rand_int r 3) (fun _ -> op ()) and during = L.init (1 + rand_int r 3) (fun _ -> op ()) in
  Printf.sprintf "RUN %s 200 start %s %s close %s sleep:60 %s ; conn=ok ack=ok" driver
    (if chance r 60 then "wait:Success:1" else Printf.sprintf "sleep:%d" (rand_int r 10))
    (String.concat " " before) (String.concat " " during) (op ())

let main (seed : int) (count : int) (harness_path : string) (extra : string list) =
  let r = rng_make seed in
  let h = harness_start harness_path in
  let dist = Hashtbl.create 16 in
  let fails = ref [] and samples = ref [] and cases = ref 0 and events = ref 0 in
  let record what desc (f, ev) =
    incr cases; events := !events + ev; bump dist what;
    if L.length !samples < 4 && rand_int r 3 = 0 then samples := desc :: !samples;
    L.iter (fun x -> if not (L.exists (fun g -> g.signature = x.signature && g.kind = x.kind) !fails) then fails := x :: !fails) f in
  (* corpus *)
  L.iter (fun file ->
      let ic = open_in file in
      (try while true do
           let line = String.trim (input_line ic) in
           if line <> "" && line.[0] <> '#' then
             match split_ws line with
             | "WSREAD" :: size :: reads :: items -> record "corpus" line (ws_read_case h (int_of_string size) (int_of_string reads) (L.map parse_item items))
             | "WSWRITE" :: script :: ops ->
               record "corpus" line (ws_write_case h script (L.map (fun t -> if t = "f" then OFlush else OWrite (il (bytes_of_hex ("x" ^ String.sub t 1 (String.length t - 1))))) ops))
             | "results" :: "RUN" :: _ -> record "corpus" line (results_case h (String.sub line 8 (String.length line - 8)))
             | _ -> ()
         done with End_of_file -> close_in ic)) extra;
  (* generated: the real-driver scenarios are ~0.5 s each, the adapter cases microseconds *)
  let real = max 1 (count / 200) in
  for i = 1 to count do
    if i <= real then begin
      if i mod 2 = 0 then (let (sc, pubs) = gen_bytes_scenario r in record "real-bytes" sc (bytes_case h sc pubs))
      else (let sc = gen_results_scenario r in record "real-results" sc (results_case h sc))
    end else if chance r 80 then
      (let (size, reads, items) = gen_ws_read r in
       record "ws-read" (Printf.sprintf "WSREAD %d %d %s" size reads (String.concat " " (L.map item_token items))) (ws_read_case h size reads items))
    else (let (script, ops) = gen_ws_write r in record "ws-write" ("WSWRITE " ^ script) (ws_write_case h script ops))
  done;
  harness_stop h;
  print_endline (jobj [
    "cases", string_of_int !cases; "events", string_of_int !events; "distinct_nontrivial", string_of_int !cases;
    "distribution", jtable dist; "samples", jlist (L.map jstr (L.rev !samples));
    "notes", jlist [jstr "real tokio / threaded clients on scripted transports: schedules are SAMPLED (monitors only), not enumerated"];
    "failures", jlist (L.map (fun f -> jobj ["kind", jstr f.kind; "detail", jstr f.detail; "signature", jstr f.signature]) (L.rev !fails)) ])
