(* vdriver <area> <seed> <count> <harness-path> [extra...] *)
let () =
  let a = Sys.argv in
  if Array.length a < 5 then (prerr_endline "usage: vdriver <area> <seed> <count> <harness> [extra]"; exit 2);
  let seed = int_of_string a.(2) and count = int_of_string a.(3) and harness = a.(4) in
  let extra = Array.to_list (Array.sub a 5 (Array.length a - 5)) in
  match a.(1) with
  | "c19" -> C19.main seed count harness extra
  | other -> prerr_endline ("unknown area " ^ other); exit 2
