module L = Stdlib.List
module String = Stdlib.String
(* C12 correspondence, part 1: the client implementation `MqttClientImpl` (through the facade
   gneiss_mqtt::verif::client2, harness commands KNEW, KOP, ...) against the extracted models Impl / Driver.

   (a) TABLE   : the complete compute_optional_state_transition table (5 current x 5 desired x 3 stop
                 shapes = 75 cells) is regenerated from the compiled implementation on every run (KTABLE) and
                 compared with the extracted Impl.cost_table (tie) and Impl.cost_spec (property).
   (b) LOCK-STEP: histories of abstract driver events (Driver.dev) for both drivers (flag thr).  A simulated
                 driver (below, the loop bodies of tokio/mod.rs and threaded/mod.rs re-written over the facade)
                 executes each event on the REAL MqttClientImpl; the extracted Driver.dstep executes the same
                 event on the model, with the engine replaced by an oracle that returns what the REAL engine
                 answered inside the facade call (outcome, state tag, bytes, packet events).  After every event:
                 current / desired state, stop shape, last_connack, last_disconnect, last_error, engine tag,
                 loop status and the emitted client events must agree (tie).
                 Monitors on the IMPLEMENTATION (kind=property): the extracted grammar_ok on the real event log;
                 transition_to_state never returns Err / panics; the engine facts fact_* (the hypotheses of the
                 C12 theorems) hold on every observed engine call; after the history a settling phase checks that
                 a pending stop request stops the client (single Stopped, no Attempt after it).
   Corpus files: lines `<tokio|threaded> <timeout: ns|max> <event>,<event>,...` (see [event_of_token]). *)
open Util
open Impl
open Driver
open BinNums
open Datatypes

type fail = { kind : string; signature : string; detail : string }

(* ---- text <-> model values ---- *)
let cstate_of = function
  | "Stopped" -> CStopped | "Connecting" -> CConnecting | "Connected" -> CConnected
  | "PendingReconnect" -> CPendingReconnect | "Shutdown" -> CShutdown | s -> failwith ("bad state " ^ s)
let cstate_to = function
  | CStopped -> "Stopped" | CConnecting -> "Connecting" | CConnected -> "Connected"
  | CPendingReconnect -> "PendingReconnect" | CShutdown -> "Shutdown"
let etag_of = function
  | "Disconnected" -> TDisconnected | "PendingConnack" -> TPendingConnack | "Connected" -> TConnected
  | "PendingDisconnect" -> TPendingDisconnect | "Halted" -> THalted | s -> failwith ("bad engine state " ^ s)
let etag_to = function
  | TDisconnected -> "Disconnected" | TPendingConnack -> "PendingConnack" | TConnected -> "Connected"
  | TPendingDisconnect -> "PendingDisconnect" | THalted -> "Halted"
let stop_to = function SNone -> "none" | SPlain -> "plain" | SDisc -> "disc"
let kinds = Outcome.[
  "Unimplemented", EUnimplemented; "OperationChannelFailure", EOperationChannelFailure; "EncodingFailure", EEncodingFailure;
  "DecodingFailure", EDecodingFailure; "ProtocolError", EProtocolError; "InvalidInboundTopicAlias", EInvalidInboundTopicAlias;
  "InternalStateError", EInternalStateError; "ConnectionClosed", EConnectionClosed; "OfflineQueuePolicyFailed", EOfflineQueuePolicyFailed;
  "AckTimeout", EAckTimeout; "ClientClosed", EClientClosed; "UserInitiatedDisconnect", EUserInitiatedDisconnect;
  "ConnectionEstablishmentFailure", EConnectionEstablishmentFailure; "StdIoError", EStdIoError; "TlsError", ETlsError;
  "TransportError", ETransportError; "PacketValidationFailure", EPacketValidationFailure; "OtherError", EOtherError;
  "MaxInterruptedRetriesExceeded", EMaxInterruptedRetriesExceeded ]
let kind_of (s : string) = try L.assoc s kinds with Not_found -> Outcome.EOtherError
let kind_to k = try fst (L.find (fun (_, k') -> k' = k) kinds) with Not_found -> "?"
let cev_to = function
  | EvAttempt -> "Attempt" | EvSuccess -> "Success" | EvStopped -> "Stopped" | EvPublish -> "Publish"
  | EvFailure (k, c) -> Printf.sprintf "Failure:%s:%d" (kind_to k) (if c then 1 else 0)
  | EvDisconnection (k, d) -> Printf.sprintf "Disconnection:%s:%d" (kind_to k) (if d then 1 else 0)
let cev_of (s : string) : cev =
  match String.split_on_char ':' s with
  | ["Attempt"] -> EvAttempt | ["Success"] -> EvSuccess | ["Stopped"] -> EvStopped | ["Publish"] -> EvPublish
  | ["Failure"; k; c] -> EvFailure (kind_of k, c = "1")
  | ["Disconnection"; k; d] -> EvDisconnection (kind_of k, d = "1")
  | _ -> failwith ("bad client event " ^ s)

(* ---- facade answers ---- *)
type snap = { outcome : string; out : string; cur : cstate; des : cstate; stop : string; connack : string; disc : string;
              err : string; eng : etag; evs : string list; res : string list; raw : string }
let parse_list (s : string) : string list =
  let n = String.length s in
  if n < 2 then [] else
    let inner = String.sub s 1 (n - 2) in if inner = "" then [] else String.split_on_char ',' inner
let parse_snap (reply : string) : snap =
  let toks = split_ws reply in
  let get key = try let t = L.find (fun t -> String.length t > String.length key && String.sub t 0 (String.length key + 1) = key ^ "=") toks in
      String.sub t (String.length key + 1) (String.length t - String.length key - 1) with Not_found -> failwith ("facade answer without " ^ key ^ ": " ^ reply) in
  { outcome = (match toks with o :: _ -> o | [] -> "EMPTY"); out = (try get "out" with _ -> "x");
    cur = cstate_of (get "cur"); des = cstate_of (get "des"); stop = get "stop"; connack = get "connack"; disc = get "disc";
    err = get "err"; eng = etag_of (get "eng"); evs = parse_list (get "ev"); res = parse_list (get "res"); raw = reply }

(* ---- oracle engine for the model: E = engine state tag; the closures hand back what the REAL engine did ---- *)
type resp = { r_ok : unit Outcome.outcome; r_tag : etag; r_pes : pevent list; r_out : coq_N list }
let outcome_of_string (s : string) : unit Outcome.outcome =
  if s = "ok" then Outcome.Ok () else if s = "panic" then Outcome.Panic N0
  else match String.split_on_char ':' s with ["err"; k] -> Outcome.Err (kind_of k) | _ -> Outcome.Err Outcome.EOtherError

let ev_slot : resp option ref = ref None       (* answer of the engine call made by the event's own facade call *)
let tr_slot : resp option ref = ref None       (* answer of the engine call made inside transition_to_state *)
let nst_slot : string ref = ref "never"
let extra_calls : string list ref = ref []     (* engine calls the model made without the implementation making one *)
let take (slot : resp option ref) (who : string) (tag : etag) : resp =
  match !slot with
  | Some r -> slot := None; r
  | None -> extra_calls := who :: !extra_calls; { r_ok = Outcome.Ok (); r_tag = tag; r_pes = []; r_out = [] }
let o_tag (e : etag) = e
let o_user e _ _ = (take ev_slot "user" e).r_tag
let o_disc e _ _ = (take ev_slot "disconnect" e).r_tag
let o_reset e _ = (take ev_slot "reset" e).r_tag
let o_opened e _ _ = let r = take tr_slot "opened" e in (r.r_tag, r.r_ok)
let o_closed e _ = let r = take tr_slot "closed" e in (r.r_tag, r.r_ok)
let o_data e _ _ = let r = take ev_slot "data" e in ((r.r_tag, r.r_pes), r.r_ok)
let o_wc e _ = let r = take ev_slot "wc" e in (r.r_tag, r.r_ok)
let o_service e _ _ = let r = take ev_slot "service" e in ((r.r_tag, r.r_out), r.r_ok)
let o_nst _ _ = match !nst_slot with "due" -> Some N0 | "later" -> Some (n_of_int 1) | _ -> None

type uop = string       (* the packet text of a submission *)
type mdev = (uop, string) dev
let model_step thr (ms : etag dstate) (e : mdev) : etag dstate =
  dstep o_tag o_user o_disc o_reset o_opened o_closed o_data o_wc o_service o_nst thr ms N0 e

(* ---- wire fragments the generator feeds ---- *)
let connack_ok = "x2003000000" and connack_fail = "x2003008700"
let publish_q0 = "x300500017400" ^ "41" and server_disconnect = "xe000" and pingresp = "xd000" and garbage = "x0000"
type rx = RConnackOk | RConnackFail | RPublish | RDisconnect | RPingresp | RGarbage | RConnackOkPublish | RPublishPublish
        | RPublishDisconnect | RPublishGarbage | RPublishConnack    (* a publish followed, in the SAME read, by something that fails the call *)
let rx_hex = function
  | RConnackOk -> connack_ok | RConnackFail -> connack_fail | RPublish -> publish_q0 | RDisconnect -> server_disconnect
  | RPingresp -> pingresp | RGarbage -> garbage
  | RConnackOkPublish -> connack_ok ^ String.sub publish_q0 1 (String.length publish_q0 - 1)
  | RPublishPublish -> publish_q0 ^ String.sub publish_q0 1 (String.length publish_q0 - 1)
  | RPublishDisconnect -> publish_q0 ^ String.sub server_disconnect 1 (String.length server_disconnect - 1)
  | RPublishGarbage -> publish_q0 ^ String.sub garbage 1 (String.length garbage - 1)
  | RPublishConnack -> publish_q0 ^ String.sub connack_ok 1 (String.length connack_ok - 1)
let rx_packets = function
  | RConnackOkPublish -> [RConnackOk; RPublish] | RPublishPublish -> [RPublish; RPublish]
  | RPublishDisconnect -> [RPublish; RDisconnect] | RPublishGarbage -> [RPublish; RGarbage] | RPublishConnack -> [RPublish; RConnackOk] | r -> [r]
let rx_of_hex (h : string) : rx option =
  L.find_opt (fun r -> rx_hex r = h) [RConnackOk; RConnackFail; RPublish; RDisconnect; RPingresp; RGarbage; RConnackOkPublish; RPublishPublish; RPublishDisconnect; RPublishGarbage; RPublishConnack]

(* what the engine is expected to report as packet events for a fragment (generator knowledge, see header) *)
let expected_pevents (tag : etag) (connect_flushed : bool) (r : rx) : pevent list =
  (* a read that does not decode completely is rejected as a whole: packets decoded in front of the failure are not handled *)
  if L.mem RGarbage (rx_packets r) || tag = TDisconnected || tag = THalted || (tag = TPendingConnack && not connect_flushed) then [] else
    let rec go t = function
      | [] -> []
      | RConnackOk :: rest -> if t = TPendingConnack then PeConnack true :: go TConnected rest else []
      | RConnackFail :: _ -> if t = TPendingConnack then [PeConnack false] else []
      | RPublish :: rest -> if t = TConnected || t = TPendingDisconnect then PePublish :: go t rest else []
      | RDisconnect :: _ -> if t = TConnected || t = TPendingDisconnect then [PeDisconnect] else []
      | RPingresp :: _ -> []
      | _ -> [] in
    go tag (rx_packets r)

(* ---- event text (corpus / replay / detail) ---- *)
let disconnect_packet = "DISCONNECT 0 - - [] -"
let user_packet = "PUBLISH 0 x74 0 0 0 x6869 - - - - - [] - []"
let user_packet_q1 = "PUBLISH 0 x74 1 0 0 x6869 - - - - - [] - []"
let event_to_token (e : mdev) : string =
  match e with
  | DOp OpStart -> "start" | DOp (OpStop None) -> "stop" | DOp (OpStop (Some _)) -> "stopd" | DOp OpShutdown -> "close"
  | DOp OpListener -> "listener" | DOp (OpUser p) -> if p = user_packet_q1 then "pub1" else "pub0"
  | DConnOk -> "connok" | DConnFail -> "connfail" | DConnTimeout -> "conntimeout"
  | DRead d -> "read:" ^ hex_of_bytes d | DReadEof -> "eof" | DReadBlocked -> "rblock" | DReadErr -> "rerr"
  | DService -> "service" | DWrite (WOk n) -> "w:" ^ string_of_n n | DWrite WBlocked -> "wblock" | DWrite WInterrupted -> "wintr"
  | DWrite WErr -> "werr" | DFlush b -> if b then "flush" else "flusherr" | DTimer -> "timer" | DCheck -> "check"
let event_of_token (t : string) : mdev =
  match String.split_on_char ':' t with
  | ["start"] -> DOp OpStart | ["stop"] -> DOp (OpStop None) | ["stopd"] -> DOp (OpStop (Some disconnect_packet))
  | ["close"] -> DOp OpShutdown | ["listener"] -> DOp OpListener | ["pub0"] -> DOp (OpUser user_packet) | ["pub1"] -> DOp (OpUser user_packet_q1)
  | ["connok"] -> DConnOk | ["connfail"] -> DConnFail | ["conntimeout"] -> DConnTimeout
  | ["read"; h] -> DRead (bytes_of_hex h) | ["eof"] -> DReadEof | ["rblock"] -> DReadBlocked | ["rerr"] -> DReadErr
  | ["service"] -> DService | ["w"; n] -> DWrite (WOk (n_of_string n)) | ["wall"] -> DWrite (WOk (n_of_int 100000))
  | ["wblock"] -> DWrite WBlocked | ["wintr"] -> DWrite WInterrupted | ["werr"] -> DWrite WErr
  | ["flush"] -> DFlush true | ["flusherr"] -> DFlush false | ["timer"] -> DTimer | ["check"] -> DCheck
  | _ -> failwith ("bad event token " ^ t)

(* ---- one history ---- *)
type ctx = { h : harness; thr : bool; timeout : string; mutable ms : etag dstate; mutable last : snap;
             mutable status : lstatus; mutable connect_flushed : bool; mutable real_events : string list;
             mutable fails : fail list; mutable trace : string list; mutable steps : int; dist : (string, int) Hashtbl.t;
             mutable since_lifecycle : string list; mutable awaited : bool; mutable closed : bool }

let add_fail c kind signature detail =
  if not (L.exists (fun f -> f.signature = signature) c.fails) then
    c.fails <- { kind; signature; detail = Printf.sprintf "%s %s [%s] :: %s" (if c.thr then "threaded" else "tokio") c.timeout
                   (String.concat "," (L.rev c.trace)) detail } :: c.fails

let backoff_cfg = Backoff.{ c_jit = JNone; c_base = n_of_string "1000000000"; c_max = n_of_string "4000000000"; c_stab = n_of_string "30000000000" }

let new_client (h : harness) (timeout : string) : snap =
  let timeout = if timeout = "max" then "18446744073709551615999999999" else timeout in
  parse_snap (ask h (Printf.sprintf "KNEW 0 %s 10000000000 default 0 1000000000 4000000000 30000000000 5 - - | - 0 x6161 - - - - - - - - - [] NOWILL" timeout))

let send c (cmd : string) : snap =
  let s = parse_snap (ask c.h cmd) in
  (* close is terminal: once close() was requested the client shuts down; it never reports Stopped again (a client in Stopped can
     be restarted).  An Attempt right after the request is NOT judged: the threaded loop may find the reconnect timer elapsed in the
     very iteration that consumed the close and begins (then abandons) an attempt - the code does that and the model agrees *)
  if c.closed && L.mem "Stopped" s.evs then
    add_fail c "property" "close-not-terminal" (Printf.sprintf "after the close request, %s produced the client events [%s]: a closed client came back to Stopped and can be started again" cmd (String.concat "," s.evs));
  c.real_events <- c.real_events @ s.evs; c.since_lifecycle <- c.since_lifecycle @ s.evs; c.last <- s; s

let resp_of (s : snap) (pes : pevent list) : resp =
  { r_ok = outcome_of_string s.outcome; r_tag = s.eng; r_pes = pes; r_out = (try bytes_of_hex s.out with _ -> []) }

(* the simulated driver: transition_to_state + loop exit rule *)
let sim_transition c (target : string) =
  let before = c.last in
  let effective =
    let n1 = if target = "PendingReconnect" && before.des <> CConnected then "Stopped" else target in
    if n1 = "Stopped" && before.des = CShutdown then "Shutdown" else n1 in
  if cstate_to before.cur = target then () else begin
    let s = send c ("KTRANS " ^ target) in
    tr_slot := Some (resp_of s []);
    let ok = s.outcome = "ok" in
    (* engine facts (hypotheses of the C12 theorems) on the observed call *)
    if effective = "Connected" then begin
      if not (fact_opened before.eng ok s.eng) && s.outcome <> "panic" then
        add_fail c "property" "engine-fact:opened" (Printf.sprintf "ConnectionOpened from engine state %s answered %s, engine now %s" (etag_to before.eng) s.outcome (etag_to s.eng))
    end else if before.cur = CConnected then begin
      if not (fact_closed before.eng ok s.eng) then
        add_fail c "property" "D14:engine-fact:closed" (Printf.sprintf "ConnectionClosed from engine state %s answered %s, engine now %s" (etag_to before.eng) s.outcome (etag_to s.eng))
    end;
    if s.outcome = "panic" then begin
      c.status <- Panicked;
      add_fail c "property" "D10b:transition-panic" (Printf.sprintf "transition_to_state(%s) panicked (connect_timeout %s): the event loop dies" target c.timeout)
    end else if not ok then begin
      c.status <- Dead;
      add_fail c "property" "D14:transition-err" (Printf.sprintf "transition_to_state(%s) returned %s: the event loop exits silently" target s.outcome)
    end else begin
      if effective = "Connected" then c.connect_flushed <- false;
      if target = "Shutdown" || s.cur = CShutdown then c.status <- Exited
    end
  end

let sim_check c =
  let s = send c "KCOMP" in
  match String.split_on_char ':' s.outcome with
  | ["some"; t] -> sim_transition c t
  | _ -> ()
let sim_after_event c = if not c.thr then sim_check c
let sim_fail_with c (k : string) = ignore (send c ("KERR " ^ k)); sim_transition c "PendingReconnect"
let io_kind c = if c.last.eng = TConnected then "ConnectionClosed" else "ConnectionEstablishmentFailure"

let check_user_fact c (before : snap) (s : snap) what =
  if not (fact_user before.eng s.eng) then
    add_fail c "property" ("engine-fact:" ^ what) (Printf.sprintf "%s moved the engine from %s to %s" what (etag_to before.eng) (etag_to s.eng))
let check_other_fact c (before : snap) (s : snap) what =
  if not (fact_other before.eng s.eng) then
    add_fail c "property" ("engine-fact:" ^ what) (Printf.sprintf "%s moved the engine from %s to %s" what (etag_to before.eng) (etag_to s.eng))

let sim_op c (o : (uop, string) cop) =
  let before = c.last in
  (match o with
   (* a start / stop handled AFTER a close is an artefact of this area's free event order (the real loops exit at the check that
      follows the close): the terminal clause is only judged while no such request intervenes *)
   | OpStart -> c.closed <- false; ignore (send c "KOP START"); c.since_lifecycle <- []
   | OpStop None -> c.closed <- false; ignore (send c "KOP STOP"); c.since_lifecycle <- []
   | OpStop (Some p) -> c.closed <- false; let s = send c ("KOP STOP " ^ p) in ev_slot := Some (resp_of s []); check_user_fact c before s "user-disconnect"; c.since_lifecycle <- []
   | OpShutdown -> c.closed <- true; let s = send c "KOP SHUTDOWN" in ev_slot := Some (resp_of s []); check_user_fact c before s "reset"; c.since_lifecycle <- []
   | OpListener -> ignore (send c "KOP LISTENER")
   | OpUser p -> let s = send c ("KOP USER " ^ p) in ev_slot := Some (resp_of s []); check_user_fact c before s "user-event");
  sim_after_event c

let len_n (l : 'a list) = L.length l

let sim_event c (e : mdev) =
  let ms = c.ms in
  match c.last.cur, e with
  | CStopped, DOp o -> sim_op c o
  | CStopped, DCheck -> sim_check c
  | CConnecting, DOp o -> sim_op c o
  | CConnecting, DConnOk -> sim_transition c "Connected"
  | CConnecting, (DConnFail | DConnTimeout) -> sim_fail_with c "ConnectionEstablishmentFailure"
  | CConnecting, DCheck -> sim_check c
  | CPendingReconnect, DOp o -> sim_op c o
  | CPendingReconnect, DTimer -> sim_transition c "Connecting"
  | CPendingReconnect, DCheck -> sim_check c
  | CConnected, _ ->
    if ms.d_flush then begin
      match e with
      | DFlush true ->
        let before = c.last in
        let s = send c "KWC" in
        ev_slot := Some (resp_of s []); check_other_fact c before s "write-completion";
        if s.outcome = "ok" then (c.connect_flushed <- true; sim_after_event c)
        else if s.outcome = "panic" then (c.status <- Panicked; add_fail c "property" "engine-panic:wc" s.raw)
        else (match String.split_on_char ':' s.outcome with ["err"; k] -> sim_fail_with c k | _ -> ())
      | DFlush false -> sim_fail_with c (io_kind c)
      | _ -> ()
    end else begin
      match e with
      | DOp o -> sim_op c o
      | DRead [] -> ()
      | DRead data ->
        let before = c.last in
        let hx = hex_of_bytes data in
        let s = send c ("KDATA " ^ hx) in
        let pes = (match rx_of_hex hx with Some r -> expected_pevents before.eng c.connect_flushed r | None -> []) in
        ev_slot := Some (resp_of s pes);
        (* C05 at the client level: every PUBLISH the engine processes in this read is surfaced to the listeners by this very
           call, whatever the call's outcome (the packets in front of a failing one were processed) *)
        let expect_pub = L.length (L.filter (fun pe -> pe = PePublish) pes) in
        let got_pub = L.length (L.filter (fun e -> e = "Publish") s.evs) in
        if s.outcome <> "panic" && got_pub <> expect_pub then
          add_fail c "property" "C05:client-surfacing"
            (Printf.sprintf "IncomingData %s (engine %s, outcome %s): %d PUBLISH processed by the engine, %d surfaced to the client's listeners" hx (etag_to before.eng) s.outcome expect_pub got_pub);
        if not (fact_data before.eng pes s.eng) then
          add_fail c "property" "engine-fact:data" (Printf.sprintf "IncomingData %s moved the engine from %s to %s" hx (etag_to before.eng) (etag_to s.eng));
        if s.outcome = "ok" then sim_after_event c
        else if s.outcome = "panic" then (c.status <- Panicked; add_fail c "property" "engine-panic:data" s.raw)
        else (match String.split_on_char ':' s.outcome with ["err"; k] -> sim_fail_with c k | _ -> ())
      | DReadEof -> sim_fail_with c (if c.thr then io_kind c else "ConnectionClosed")
      | DReadErr -> sim_fail_with c (io_kind c)
      | DReadBlocked -> sim_after_event c
      | DService ->
        let n = send c "KNST" in
        nst_slot := n.outcome;
        if n.outcome = "due" then begin
          let before = c.last in
          let s = send c (Printf.sprintf "KSVC %d" (len_n ms.d_buf)) in
          ev_slot := Some (resp_of s []); check_other_fact c before s "service";
          if s.outcome = "ok" then sim_after_event c
          else if s.outcome = "panic" then (c.status <- Panicked; add_fail c "property" "engine-panic:service" s.raw)
          else (match String.split_on_char ':' s.outcome with ["err"; k] -> sim_fail_with c k | _ -> ())
        end else sim_after_event c
      | DWrite r ->
        let cursor = int_of_n ms.d_cursor and total = len_n ms.d_buf in
        if cursor < total then begin
          match r with
          | WOk n ->
            let n = int_of_n n in
            if total - cursor < n then ()
            else if n = 0 then (if c.thr then sim_fail_with c (io_kind c) else sim_after_event c)
            else if cursor + n = total then ()
            else sim_after_event c
          | WBlocked -> sim_after_event c
          | WInterrupted -> if c.thr then sim_after_event c else sim_fail_with c (io_kind c)
          | WErr -> sim_fail_with c (io_kind c)
        end
      | DCheck -> sim_check c
      | _ -> ()
    end
  | _, _ -> ()

let status_to = function Running -> "Running" | Exited -> "Exited" | Dead -> "Dead" | Panicked -> "Panicked"

let compare_states c (evs_before : int) =
  let m = c.ms.d_c and s = c.last in
  let model_new = L.filteri (fun i _ -> i >= evs_before) c.ms.d_log in
  let real_new = L.filteri (fun i _ -> i >= evs_before) c.real_events in
  let diffs = L.filter_map (fun (what, a, b) -> if a = b then None else Some (Printf.sprintf "%s impl=%s model=%s" what a b)) [
      "current", cstate_to s.cur, cstate_to m.c_cur; "desired", cstate_to s.des, cstate_to m.c_des; "stop", s.stop, stop_to m.c_stop;
      "last_connack", s.connack, (match m.c_connack with None -> "-" | Some true -> "ok" | Some false -> "fail");
      "last_disconnect", s.disc, (if m.c_disc then "1" else "0");
      "last_error", s.err, (match m.c_err with None -> "-" | Some k -> kind_to k);
      "engine", etag_to s.eng, etag_to m.c_eng;
      "loop", status_to c.status, status_to c.ms.d_status;
      "events", String.concat "," real_new, String.concat "," (L.map cev_to model_new) ] in
  let extras = !extra_calls in
  extra_calls := [];
  let diffs = diffs @ (if extras = [] then [] else ["engine calls made only by the model: " ^ String.concat "," extras]) in
  if diffs <> [] then add_fail c "tie" ("lockstep:" ^ (match diffs with d :: _ -> L.hd (String.split_on_char ' ' d) | [] -> "")) (String.concat "; " diffs)

let do_event c (e : mdev) =
  (* `wall` = the transport accepts the whole unwritten tail *)
  let e = (match e with
      | DWrite (WOk n) when int_of_n n = 100000 -> DWrite (WOk (n_of_int (max 1 (L.length c.ms.d_buf - int_of_n c.ms.d_cursor))))
      | _ -> e) in
  if c.status = Running && in_order c.thr c.ms e then begin
    c.trace <- event_to_token e :: c.trace;
    c.steps <- c.steps + 1;
    bump c.dist (match e with DOp _ -> "op" | DRead _ -> "read" | DWrite _ -> "write" | DFlush _ -> "flush" | DService -> "service"
                          | DCheck -> "check" | DTimer -> "timer" | DConnOk -> "conn-ok" | DConnFail | DConnTimeout -> "conn-fail" | _ -> "read-end");
    let before = L.length c.real_events in
    ev_slot := None; tr_slot := None; extra_calls := [];
    sim_event c e;
    (* the model makes the step with the real engine's answers *)
    c.ms <- model_step c.thr c.ms e;
    compare_states c before
  end

let parsed_real_events c = L.map cev_of c.real_events

(* settling: a stop request that no later start supersedes must stop the client *)
let settle c =
  if c.status = Running && c.last.des <> CConnected then begin
    if c.ms.d_flush then do_event c (DFlush true);
    do_event c DCheck;
    let rounds = ref 0 in
    while c.status = Running && c.last.cur = CConnected && c.last.stop = "disc" && !rounds < 6 do
      incr rounds;
      do_event c DService; do_event c (DWrite (WOk (n_of_int (max 1 (len_n c.ms.d_buf - int_of_n c.ms.d_cursor)))));
      do_event c (DFlush true); do_event c DCheck
    done;
    if c.status = Running && c.last.des = CStopped then begin
      if c.last.cur = CConnected && c.last.stop = "disc" then begin
        c.awaited <- true;
        add_fail c "property" "D13:stop-with-disconnect-never-stops"
          (Printf.sprintf "desired Stopped with a DISCONNECT requested, but after 6 healthy service/write/flush rounds the client is still Connected (engine %s, nothing to write): no Stopped event will ever be emitted"
             (etag_to c.last.eng))
      end else if c.last.cur <> CStopped then
        add_fail c "property" "stop-does-not-stop" (Printf.sprintf "desired Stopped but current %s after the settling checks" (cstate_to c.last.cur))
    end;
    let since = L.map cev_of c.since_lifecycle in
    if count_stopped since > (S O) || not (no_attempt_after_stopped since) then
      add_fail c "property" "stop-event-shape" ("events after the last stop/close request: " ^ String.concat "," c.since_lifecycle)
  end

let run_history (h : harness) (thr : bool) (timeout : string) (events : mdev list) (dist : (string, int) Hashtbl.t) : ctx =
  let s0 = new_client h timeout in
  let tmo = if timeout = "max" then n_of_string "18446744073709551615999999999" else n_of_string timeout in
  let c = { h; thr; timeout; ms = dinit TDisconnected backoff_cfg tmo; last = s0; status = Running; connect_flushed = false;
            real_events = []; fails = []; trace = []; steps = 0; dist; since_lifecycle = []; awaited = false; closed = false } in
  L.iter (fun e -> do_event c e) events;
  settle c;
  if not (grammar_ok (parsed_real_events c)) then
    add_fail c "property" "event-grammar" ("the implementation's client-event sequence leaves (Attempt (Failure | Success Disconnection))* / Stopped between attempts: "
                                            ^ String.concat "," c.real_events);
  c

(* ---- generation ---- *)
let gen_op r : (uop, string) cop =
  let k = rand_int r 100 in
  if k < 30 then OpStart else if k < 50 then OpStop None else if k < 68 then OpStop (Some disconnect_packet)
  else if k < 73 then OpShutdown else if k < 78 then OpListener else if k < 90 then OpUser user_packet else OpUser user_packet_q1

let gen_rx r (tag : etag) : rx =
  let k = rand_int r 100 in
  if tag = TPendingConnack then (if k < 60 then RConnackOk else if k < 72 then RConnackFail else if k < 80 then RConnackOkPublish else if k < 88 then RPublish else if k < 94 then RGarbage else RDisconnect)
  else (if k < 40 then RPublish else if k < 48 then RPublishPublish else if k < 53 then RPublishDisconnect else if k < 57 then RPublishGarbage else if k < 60 then RPublishConnack
        else if k < 72 then RDisconnect else if k < 80 then RConnackOk else if k < 88 then RPingresp else RGarbage)

(* next event, looking at the implementation's current state (only to bias the choice) *)
let gen_event r (c : ctx) : mdev =
  let k = rand_int r 100 in
  match c.last.cur with
  | CStopped -> if k < 55 then DOp (if chance r 70 then OpStart else gen_op r) else DCheck
  | CConnecting -> if k < 40 then DConnOk else if k < 52 then DConnFail else if k < 60 then DConnTimeout else if k < 85 then DOp (gen_op r) else DCheck
  | CPendingReconnect -> if k < 45 then DTimer else if k < 75 then DOp (gen_op r) else DCheck
  | CConnected ->
    if c.ms.d_flush then (if k < 90 then DFlush true else DFlush false)
    else if c.last.eng = TPendingConnack && not c.connect_flushed && chance r 80 then
      (* get the CONNECT out: service, then write the tail *)
      (if len_n c.ms.d_buf = 0 then DService
       else if chance r 60 then DWrite (WOk (n_of_int 100000)) else DWrite (WOk (n_of_int (1 + rand_int r (max 1 (len_n c.ms.d_buf - int_of_n c.ms.d_cursor))))))
    else if k < 22 then DService
    else if k < 45 then
      (let remaining = max 1 (len_n c.ms.d_buf - int_of_n c.ms.d_cursor) in
       let j = rand_int r 100 in
       if j < 45 then DWrite (WOk (n_of_int remaining)) else if j < 75 then DWrite (WOk (n_of_int (1 + rand_int r remaining)))
       else if j < 83 then DWrite WBlocked else if j < 89 then DWrite (WOk N0) else if j < 94 then DWrite WInterrupted else DWrite WErr)
    else if k < 65 then DRead (bytes_of_hex (rx_hex (gen_rx r c.last.eng)))
    else if k < 69 then DReadEof else if k < 72 then DReadErr else if k < 76 then DReadBlocked
    else if k < 90 then DOp (gen_op r) else DCheck
  | CShutdown -> DCheck

let main (seed : int) (count : int) (harness_path : string) (extra : string list) =
  let r = rng_make seed in
  let h = harness_start harness_path in
  let dist = Hashtbl.create 16 in
  let fails = ref [] and samples = ref [] and events = ref 0 and nontrivial = ref 0 and cases = ref 0 in
  let seen = Hashtbl.create 1024 in
  let notes = ref [] in
  let record (c : ctx) =
    incr cases; events := !events + c.steps;
    let desc = Printf.sprintf "%s [%s]" (if c.thr then "threaded" else "tokio") (String.concat "," (L.rev c.trace)) in
    if not (Hashtbl.mem seen desc) then (Hashtbl.add seen desc (); if c.steps >= 4 then incr nontrivial);
    if L.length !samples < 3 then samples := desc :: !samples;
    bump dist (Printf.sprintf "end:%s" (match c.status with Running -> cstate_to c.last.cur | s -> status_to s));
    if L.exists (fun e -> e = "Success") c.real_events then bump dist "histories-with-success";
    if c.awaited then bump dist "histories-awaiting-disconnect";
    L.iter (fun f -> if not (L.exists (fun g -> g.signature = f.signature && g.kind = f.kind) !fails) then fails := f :: !fails) c.fails in

  (* (a) the transition table, regenerated from the compiled implementation *)
  ignore (new_client h "30000000000");
  let reply = ask h "KTABLE" in
  (match split_ws reply with
   | ["ok"; cells] ->
     let impl = String.split_on_char ',' cells in
     let cell = function None -> "-" | Some s -> cstate_to s in
     let model = L.map cell cost_table in
     let spec = L.map (fun ((cu, de), st) -> cell (cost_spec cu de st)) cost_domain in
     let name ((cu, de), st) = Printf.sprintf "current=%s desired=%s stop=%s" (cstate_to cu) (cstate_to de) (stop_to st) in
     if L.length impl <> 75 then fails := { kind = "tie"; signature = "table-size"; detail = reply } :: !fails
     else begin
       L.iteri (fun i d ->
           let im = L.nth impl i in
           if im <> L.nth spec i then
             fails := { kind = "property"; signature = "transition-table:" ^ name d;
                        detail = Printf.sprintf "compute_optional_state_transition(%s): implementation %s, specification %s" (name d) im (L.nth spec i) } :: !fails
           else if im <> L.nth model i then
             fails := { kind = "tie"; signature = "transition-table-model:" ^ name d;
                        detail = Printf.sprintf "compute_optional_state_transition(%s): implementation %s, model %s" (name d) im (L.nth model i) } :: !fails) cost_domain;
       notes := "transition table: 75/75 cells regenerated from the compiled implementation and compared (exhaustive)" :: !notes
     end
   | _ -> fails := { kind = "tie"; signature = "table"; detail = "KTABLE -> " ^ reply } :: !fails);

  (* (b) corpus / replay histories first *)
  L.iter (fun file ->
      let ic = open_in file in
      (try while true do
           let line = String.trim (input_line ic) in
           if line <> "" && line.[0] <> '#' then
             match split_ws line with
             | [drv; timeout; evs] when drv = "tokio" || drv = "threaded" ->
               let evs = L.map event_of_token (String.split_on_char ',' evs) in
               record (run_history h (drv = "threaded") timeout evs dist)
             | _ -> ()
         done with End_of_file -> close_in ic)) extra;

  (* generated histories *)
  for _ = 1 to count do
    let thr = rand_bool r in
    let n = 6 + rand_int r (if chance r 20 then 60 else 24) in
    let s0 = new_client h "30000000000" in
    let c = { h; thr; timeout = "30000000000"; ms = dinit TDisconnected backoff_cfg (n_of_string "30000000000"); last = s0; status = Running;
              connect_flushed = false; real_events = []; fails = []; trace = []; steps = 0; dist; since_lifecycle = []; awaited = false; closed = false } in
    for _ = 1 to n do
      if c.status = Running then begin
        let e = gen_event r c in
        (* threaded: close iterations so that the fixed order does not starve events *)
        if thr && not (in_order thr c.ms e) then do_event c DCheck;
        do_event c e
      end
    done;
    settle c;
    if not (grammar_ok (parsed_real_events c)) then
      add_fail c "property" "event-grammar" ("client-event sequence: " ^ String.concat "," c.real_events);
    record c
  done;
  harness_stop h;
  print_endline (jobj [
    "cases", string_of_int !cases; "events", string_of_int !events; "distinct_nontrivial", string_of_int !nontrivial;
    "distribution", jtable dist; "samples", jlist (L.map jstr (L.rev !samples)); "notes", jlist (L.map jstr !notes);
    "failures", jlist (L.map (fun f -> jobj ["kind", jstr f.kind; "detail", jstr f.detail; "signature", jstr f.signature]) (L.rev !fails)) ])
