module L = Stdlib.List
module String = Stdlib.String
(* Text form of packets (same format as gneiss-mqtt/src/verif/text.rs) for the extracted
   Packets types. *)
open Util
open Packets

let o f = function None -> "-" | Some x -> f x
let b v = if v then "1" else "0"
let n = string_of_n
let hx = hex_of_bytes
let up_list (l : user_property list) =
  "[" ^ String.concat "," (L.map (fun p -> hx p.up_name ^ ":" ^ hx p.up_value) l) ^ "]"
let num_list (l : BinNums.coq_N list) = "[" ^ String.concat "," (L.map n l) ^ "]"

let publish_fields (p : publish) : string =
  String.concat " " [ n p.pub_pid; hx p.pub_topic; n p.pub_qos; b p.pub_dup; b p.pub_retain; o hx p.pub_payload;
    o n p.pub_pfi; o n p.pub_mei; o n p.pub_alias; o hx p.pub_response_topic; o hx p.pub_correlation;
    o num_list p.pub_subids; o hx p.pub_content_type; o up_list p.pub_up ]

let ack_fields (a : ack) = String.concat " " [ n a.ack_pid; n a.ack_rc; o hx a.ack_reason; o up_list a.ack_up ]

let packet_to_text (p : packet) : string =
  match p with
  | Connect c ->
    String.concat " " [ "CONNECT"; n c.con_keep_alive; b c.con_clean_start; o hx c.con_client_id; o hx c.con_username;
      o hx c.con_password; o n c.con_sei; o b c.con_rri; o b c.con_rpi; o n c.con_receive_max; o n c.con_tam;
      o n c.con_max_packet; o hx c.con_auth_method; o hx c.con_auth_data; o n c.con_will_delay; o up_list c.con_up;
      (match c.con_will with None -> "NOWILL" | Some w -> "WILL " ^ publish_fields w) ]
  | Connack c ->
    String.concat " " [ "CONNACK"; b c.ca_session_present; n c.ca_rc; o n c.ca_sei; o n c.ca_receive_max; o n c.ca_max_qos;
      o b c.ca_retain_avail; o n c.ca_max_packet; o hx c.ca_assigned_id; o n c.ca_tam; o hx c.ca_reason; o up_list c.ca_up;
      o b c.ca_wildcard; o b c.ca_subid_avail; o b c.ca_shared; o n c.ca_server_keep_alive; o hx c.ca_response_info;
      o hx c.ca_server_ref; o hx c.ca_auth_method; o hx c.ca_auth_data ]
  | Publish p -> "PUBLISH " ^ publish_fields p
  | Puback a -> "PUBACK " ^ ack_fields a
  | Pubrec a -> "PUBREC " ^ ack_fields a
  | Pubrel a -> "PUBREL " ^ ack_fields a
  | Pubcomp a -> "PUBCOMP " ^ ack_fields a
  | Subscribe s ->
    let subs = L.map (fun x -> String.concat ":" [ hx x.sub_filter; n x.sub_qos; b x.sub_no_local; b x.sub_rap; n x.sub_rh ]) s.s_subs in
    String.concat " " [ "SUBSCRIBE"; n s.s_pid; "[" ^ String.concat "," subs ^ "]"; o n s.s_subid; o up_list s.s_up ]
  | Suback s -> String.concat " " [ "SUBACK"; n s.sa_pid; o hx s.sa_reason; o up_list s.sa_up; num_list s.sa_codes ]
  | Unsubscribe u ->
    String.concat " " [ "UNSUBSCRIBE"; n u.u_pid; "[" ^ String.concat "," (L.map hx u.u_filters) ^ "]"; o up_list u.u_up ]
  | Unsuback s -> String.concat " " [ "UNSUBACK"; n s.ua_pid; o hx s.ua_reason; o up_list s.ua_up; num_list s.ua_codes ]
  | Pingreq -> "PINGREQ"
  | Pingresp -> "PINGRESP"
  | Disconnect d -> String.concat " " [ "DISCONNECT"; n d.d_rc; o n d.d_sei; o hx d.d_reason; o up_list d.d_up; o hx d.d_server_ref ]
  | Auth a -> String.concat " " [ "AUTH"; n a.au_rc; o hx a.au_method; o hx a.au_data; o hx a.au_reason; o up_list a.au_up ]

(* ---- parsing ---- *)
exception Parse of string
let po f t = if t = "-" then None else Some (f t)
let pb t = match t with "0" -> false | "1" -> true | _ -> raise (Parse ("bool " ^ t))
let pn = n_of_string
let ph = bytes_of_hex
let list_items (t : string) : string list =
  let l = String.length t in
  if l < 2 || t.[0] <> '[' || t.[l - 1] <> ']' then raise (Parse ("list " ^ t));
  let inner = String.sub t 1 (l - 2) in
  if inner = "" then [] else String.split_on_char ',' inner
let pup t = L.map (fun it -> match String.split_on_char ':' it with
    | [a; c] -> { up_name = ph a; up_value = ph c } | _ -> raise (Parse "user property")) (list_items t)
let pnums t = L.map pn (list_items t)

let take_publish (toks : string list) : publish * string list =
  match toks with
  | pid :: topic :: qos :: dup :: retain :: payload :: pfi :: mei :: alias :: rt :: corr :: subids :: ct :: up :: rest ->
    ({ pub_pid = pn pid; pub_topic = ph topic; pub_qos = pn qos; pub_dup = pb dup; pub_retain = pb retain;
       pub_payload = po ph payload; pub_pfi = po pn pfi; pub_mei = po pn mei; pub_alias = po pn alias;
       pub_response_topic = po ph rt; pub_correlation = po ph corr; pub_subids = po pnums subids;
       pub_content_type = po ph ct; pub_up = po pup up }, rest)
  | _ -> raise (Parse "publish: too few tokens")

let take_ack toks = match toks with
  | pid :: rc :: reason :: up :: rest -> ({ ack_pid = pn pid; ack_rc = pn rc; ack_reason = po ph reason; ack_up = po pup up }, rest)
  | _ -> raise (Parse "ack: too few tokens")

let packet_of_tokens (toks : string list) : packet =
  let (p, rest) =
    match toks with
    | "CONNECT" :: ka :: cs :: cid :: un :: pw :: sei :: rri :: rpi :: rm :: tam :: mp :: am :: ad :: wd :: up :: rest ->
      let (will, rest') = (match rest with
          | "NOWILL" :: r -> (None, r)
          | "WILL" :: r -> let (w, r') = take_publish r in (Some w, r')
          | _ -> raise (Parse "will marker")) in
      (Connect { con_keep_alive = pn ka; con_clean_start = pb cs; con_client_id = po ph cid; con_username = po ph un;
                 con_password = po ph pw; con_sei = po pn sei; con_rri = po pb rri; con_rpi = po pb rpi;
                 con_receive_max = po pn rm; con_tam = po pn tam; con_max_packet = po pn mp; con_auth_method = po ph am;
                 con_auth_data = po ph ad; con_will_delay = po pn wd; con_will = will; con_up = po pup up }, rest')
    | "CONNACK" :: sp :: rc :: sei :: rm :: mq :: ra :: mp :: aid :: tam :: reason :: up :: wc :: sia :: sh :: ska :: ri :: sr :: am :: ad :: rest ->
      (Connack { ca_session_present = pb sp; ca_rc = pn rc; ca_sei = po pn sei; ca_receive_max = po pn rm; ca_max_qos = po pn mq;
                 ca_retain_avail = po pb ra; ca_max_packet = po pn mp; ca_assigned_id = po ph aid; ca_tam = po pn tam;
                 ca_reason = po ph reason; ca_up = po pup up; ca_wildcard = po pb wc; ca_subid_avail = po pb sia;
                 ca_shared = po pb sh; ca_server_keep_alive = po pn ska; ca_response_info = po ph ri; ca_server_ref = po ph sr;
                 ca_auth_method = po ph am; ca_auth_data = po ph ad }, rest)
    | "PUBLISH" :: r -> let (p, r') = take_publish r in (Publish p, r')
    | "PUBACK" :: r -> let (a, r') = take_ack r in (Puback a, r')
    | "PUBREC" :: r -> let (a, r') = take_ack r in (Pubrec a, r')
    | "PUBREL" :: r -> let (a, r') = take_ack r in (Pubrel a, r')
    | "PUBCOMP" :: r -> let (a, r') = take_ack r in (Pubcomp a, r')
    | "SUBSCRIBE" :: pid :: subs :: subid :: up :: rest ->
      let subs = L.map (fun it -> match String.split_on_char ':' it with
          | [f; q; nl; rap; rh] -> { sub_filter = ph f; sub_qos = pn q; sub_no_local = pb nl; sub_rap = pb rap; sub_rh = pn rh }
          | _ -> raise (Parse "subscription")) (list_items subs) in
      (Subscribe { s_pid = pn pid; s_subs = subs; s_subid = po pn subid; s_up = po pup up }, rest)
    | "SUBACK" :: pid :: reason :: up :: codes :: rest ->
      (Suback { sa_pid = pn pid; sa_reason = po ph reason; sa_up = po pup up; sa_codes = pnums codes }, rest)
    | "UNSUBSCRIBE" :: pid :: filters :: up :: rest ->
      (Unsubscribe { u_pid = pn pid; u_filters = L.map ph (list_items filters); u_up = po pup up }, rest)
    | "UNSUBACK" :: pid :: reason :: up :: codes :: rest ->
      (Unsuback { ua_pid = pn pid; ua_reason = po ph reason; ua_up = po pup up; ua_codes = pnums codes }, rest)
    | "PINGREQ" :: rest -> (Pingreq, rest)
    | "PINGRESP" :: rest -> (Pingresp, rest)
    | "DISCONNECT" :: rc :: sei :: reason :: up :: sr :: rest ->
      (Disconnect { d_rc = pn rc; d_sei = po pn sei; d_reason = po ph reason; d_up = po pup up; d_server_ref = po ph sr }, rest)
    | "AUTH" :: rc :: m :: d :: reason :: up :: rest ->
      (Auth { au_rc = pn rc; au_method = po ph m; au_data = po ph d; au_reason = po ph reason; au_up = po pup up }, rest)
    | k :: _ -> raise (Parse ("unknown packet kind " ^ k))
    | [] -> raise (Parse "empty") in
  if rest <> [] then raise (Parse "trailing tokens");
  p

let packet_of_text (s : string) : packet = packet_of_tokens (split_ws s)
