module L = Stdlib.List
module String = Stdlib.String
(* C03 correspondence: inbound decoding.
   Model side   : extracted Framing.decode_chunks (framing decoder + ImplDecode.impl_decode_packet),
                  ReasonCodes.impl_*_code_ok.
   Reference    : extracted SpecEncodeS2C.spec_encode_with (independent encoder), ReasonCodes.spec_*.
   Implementation: harness commands `DEC <version> <max> x<chunk>...` and `TABLE <name>`.

   Three streams, all drawn from ONE PRNG state:
   (a) valid     : structured server->client packets -> spec encoder (random legal property order,
                   random compact form) -> 1..4 packets concatenated -> two random chunkings.
                   monitor (property): implementation decodes exactly the generated packets, verdict ok,
                   for both chunkings.  tie: model verdict/packets/failing chunk = implementation's.
   (b) malformed : mutations of valid streams, raw property fuzz, random bytes, oversize announcements.
                   monitor (property): never panics; two chunkings give the same packets and verdict kind
                   and fail at the same byte; an announced size > max fails in the chunk holding the byte
                   that completes the length field.  tie: model = implementation on both chunkings.
   (c) tables    : 13 x 256 reason-code / enum acceptance tables from the compiled code, compared with
                   impl_* (tie: equal on all 256 values) and spec_* (property: every value the specification
                   allows is accepted; extra accepted values are reported as notes).  Run by shard 0 only.
   Corpus / replay files: every line containing `DEC <version> <max> x.. x..` is run first as a
   malformed-stream case with exactly those chunks (second chunking: whole stream); `REJECT <version> <max>
   x..` is the same with one more monitor: the implementation must report an error (MQTT-1.5.4-2 etc.).
   On every stream (property): no string field of a packet the implementation delivers contains U+0000
   (extracted StringsNoNul.packet_strings_no_nul, the statement of C03_strings_no_nul). *)
open Util
open Packets

let nn = n_of_int
let vtok = function V5 -> "5" | V311 -> "311"

(* ---------------------------------------------------------------- generation context *)
type ctx = { r : rng; mutable big : int }   (* big = how many large (>= 16383 byte) fields may still be drawn *)

let boundary_pool = [| 0; 1; 127; 128; 16383; 16384; 65535 |]
let gen_len (c : ctx) : int =
  if chance c.r 4 then begin
    let l = pick_arr c.r boundary_pool in
    if l >= 16383 then (if c.big > 0 then (c.big <- c.big - 1; l) else rand_int c.r 3) else l
  end else if chance c.r 15 then 0 else rand_int c.r 14

(* valid UTF-8 without U+0000, exactly n bytes *)
let utf8_of_cp (cp : int) : int list =
  if cp < 0x80 then [cp]
  else if cp < 0x800 then [0xC0 lor (cp lsr 6); 0x80 lor (cp land 0x3F)]
  else if cp < 0x10000 then [0xE0 lor (cp lsr 12); 0x80 lor ((cp lsr 6) land 0x3F); 0x80 lor (cp land 0x3F)]
  else [0xF0 lor (cp lsr 18); 0x80 lor ((cp lsr 12) land 0x3F); 0x80 lor ((cp lsr 6) land 0x3F); 0x80 lor (cp land 0x3F)]
let gen_cp (r : rng) (maxbytes : int) : int =
  let k = if maxbytes >= 4 && chance r 8 then 4 else if maxbytes >= 3 && chance r 12 then 3 else if maxbytes >= 2 && chance r 15 then 2 else 1 in
  match k with
  | 1 -> if chance r 5 then pick r [1; 0x7F; 0x2F; 0x23; 0x2B] else 0x20 + rand_int r 0x5F
  | 2 -> if chance r 20 then pick r [0x80; 0x7FF] else 0x80 + rand_int r (0x800 - 0x80)
  | 3 -> if chance r 30 then pick r [0x800; 0xD7FF; 0xE000; 0xFFFF; 0xFFFD] else (let c = 0x800 + rand_int r (0x10000 - 0x800) in if c >= 0xD800 && c <= 0xDFFF then 0xE000 else c)
  | _ -> if chance r 30 then pick r [0x10000; 0x10FFFF; 0x1F600] else 0x10000 + rand_int r (0x110000 - 0x10000)
let gen_utf8 (r : rng) (n : int) : int list =
  let rec go left acc = if left <= 0 then acc else
      let bs = utf8_of_cp (gen_cp r left) in go (left - L.length bs) (L.rev_append bs acc) in
  L.rev (go n [])
let to_n (l : int list) = L.map nn l
let gen_string (c : ctx) = to_n (gen_utf8 c.r (gen_len c))
let gen_binary (c : ctx) = let n = gen_len c in L.init n (fun _ -> nn (rand_int c.r 256))
let opt (c : ctx) pct f = if chance c.r pct then Some (f ()) else None
let gen_up (c : ctx) : user_property list option =
  if chance c.r 55 then None else
    let n = if chance c.r 8 then 4 + rand_int c.r 6 else 1 + rand_int c.r 3 in
    Some (L.init n (fun _ -> { up_name = gen_string c; up_value = gen_string c }))
let pool16 = [| 0; 1; 2; 255; 256; 32767; 32768; 65534; 65535 |]
let gen16 (c : ctx) = nn (if chance c.r 40 then pick_arr c.r pool16 else rand_int c.r 65536)
let gen32 (c : ctx) = if chance c.r 40 then n_of_string (pick c.r ["0"; "1"; "255"; "65535"; "65536"; "16777215"; "16777216"; "2147483648"; "4294967294"; "4294967295"]) else nn (rand_int c.r 0x3FFFFFFF * 4 + rand_int c.r 4)
let genvbi (c : ctx) = nn (if chance c.r 50 then pick c.r [0; 1; 127; 128; 16383; 16384; 2097151; 2097152; 268435454; 268435455] else rand_int c.r 268435456)
let genbool (c : ctx) = rand_bool c.r

let codes_of (f : BinNums.coq_N -> bool) : int list = L.filter (fun i -> f (nn i)) (L.init 256 (fun i -> i))
let connack_codes = codes_of ReasonCodes.spec_connack_code_ok
let puback_codes = codes_of ReasonCodes.spec_puback_code_ok
let pubrec_codes = codes_of ReasonCodes.spec_pubrec_code_ok
let pubrel_codes = codes_of ReasonCodes.spec_pubrel_code_ok
let pubcomp_codes = codes_of ReasonCodes.spec_pubcomp_code_ok
let suback_codes = codes_of ReasonCodes.spec_suback_code_ok
let unsuback_codes = codes_of ReasonCodes.spec_unsuback_code_ok
let disconnect_codes = codes_of ReasonCodes.spec_disconnect_code_ok
let auth_codes = codes_of ReasonCodes.spec_auth_code_ok
let suback311_codes = codes_of ReasonCodes.spec_suback311_code_ok
let connack311_v5codes = L.filter (fun i -> ReasonCodes.spec_connack311_of_v5 (nn i) <> None) (L.init 256 (fun i -> i))

let empty_connack sp rc = { ca_session_present = sp; ca_rc = rc; ca_sei = None; ca_receive_max = None; ca_max_qos = None;
  ca_retain_avail = None; ca_max_packet = None; ca_assigned_id = None; ca_tam = None; ca_reason = None; ca_up = None;
  ca_wildcard = None; ca_subid_avail = None; ca_shared = None; ca_server_keep_alive = None; ca_response_info = None;
  ca_server_ref = None; ca_auth_method = None; ca_auth_data = None }

let gen_connack (c : ctx) (v : version) : packet =
  match v with
  | V311 -> Connack (empty_connack (genbool c) (nn (pick c.r connack311_v5codes)))
  | V5 ->
    let p = if chance c.r 10 then 100 else if chance c.r 10 then 0 else 35 in
    Connack { ca_session_present = genbool c; ca_rc = nn (pick c.r connack_codes);
      ca_sei = opt c p (fun () -> gen32 c); ca_receive_max = opt c p (fun () -> gen16 c);
      ca_max_qos = opt c p (fun () -> nn (rand_int c.r 2)); ca_retain_avail = opt c p (fun () -> genbool c);
      ca_max_packet = opt c p (fun () -> gen32 c); ca_assigned_id = opt c p (fun () -> gen_string c);
      ca_tam = opt c p (fun () -> gen16 c); ca_reason = opt c p (fun () -> gen_string c); ca_up = gen_up c;
      ca_wildcard = opt c p (fun () -> genbool c); ca_subid_avail = opt c p (fun () -> genbool c);
      ca_shared = opt c p (fun () -> genbool c); ca_server_keep_alive = opt c p (fun () -> gen16 c);
      ca_response_info = opt c p (fun () -> gen_string c); ca_server_ref = opt c p (fun () -> gen_string c);
      ca_auth_method = opt c p (fun () -> gen_string c); ca_auth_data = opt c p (fun () -> gen_binary c) }

let gen_payload (c : ctx) : BinNums.coq_N list option =
  if chance c.r 25 then None else
    let n = if chance c.r 3 && c.big > 0 then (c.big <- c.big - 1; pick c.r [16383; 16384; 65535; 65536; 70001]) else 1 + rand_int c.r 24 in
    Some (L.init n (fun _ -> nn (rand_int c.r 256)))

let gen_publish (c : ctx) (v : version) : packet =
  let qos = rand_int c.r 3 in
  let base = { pub_pid = (if qos = 0 then nn 0 else gen16 c); pub_topic = gen_string c; pub_qos = nn qos; pub_dup = genbool c;
               pub_retain = genbool c; pub_payload = gen_payload c; pub_pfi = None; pub_mei = None; pub_alias = None;
               pub_response_topic = None; pub_correlation = None; pub_subids = None; pub_content_type = None; pub_up = None } in
  match v with
  | V311 -> Publish base
  | V5 ->
    let p = if chance c.r 10 then 100 else if chance c.r 10 then 0 else 35 in
    Publish { base with pub_pfi = opt c p (fun () -> nn (rand_int c.r 2)); pub_mei = opt c p (fun () -> gen32 c);
      pub_alias = opt c p (fun () -> gen16 c); pub_response_topic = opt c p (fun () -> gen_string c);
      pub_correlation = opt c p (fun () -> gen_binary c);
      pub_subids = opt c p (fun () -> L.init (1 + rand_int c.r 3) (fun _ -> genvbi c));
      pub_content_type = opt c p (fun () -> gen_string c); pub_up = gen_up c }

let gen_ack (c : ctx) (v : version) (codes : int list) : ack =
  match v with
  | V311 -> { ack_pid = gen16 c; ack_rc = nn 0; ack_reason = None; ack_up = None }
  | V5 -> { ack_pid = gen16 c; ack_rc = nn (if chance c.r 40 then 0 else pick c.r codes);
            ack_reason = opt c 30 (fun () -> gen_string c); ack_up = gen_up c }

let gen_codes (c : ctx) (codes : int list) = L.init (if chance c.r 5 then 0 else 1 + rand_int c.r 5) (fun _ -> nn (pick c.r codes))

let gen_packet (c : ctx) (v : version) : packet * string =
  let kinds = match v with V5 -> 11 | V311 -> 10 in
  match rand_int c.r kinds with
  | 0 -> (gen_connack c v, "CONNACK")
  | 1 -> (gen_publish c v, "PUBLISH")
  | 2 -> (Puback (gen_ack c v puback_codes), "PUBACK")
  | 3 -> (Pubrec (gen_ack c v pubrec_codes), "PUBREC")
  | 4 -> (Pubrel (gen_ack c v pubrel_codes), "PUBREL")
  | 5 -> (Pubcomp (gen_ack c v pubcomp_codes), "PUBCOMP")
  | 6 -> ((match v with
      | V5 -> Suback { sa_pid = gen16 c; sa_reason = opt c 30 (fun () -> gen_string c); sa_up = gen_up c; sa_codes = gen_codes c suback_codes }
      | V311 -> Suback { sa_pid = gen16 c; sa_reason = None; sa_up = None; sa_codes = gen_codes c suback311_codes }), "SUBACK")
  | 7 -> ((match v with
      | V5 -> Unsuback { ua_pid = gen16 c; ua_reason = opt c 30 (fun () -> gen_string c); ua_up = gen_up c; ua_codes = gen_codes c unsuback_codes }
      | V311 -> Unsuback { ua_pid = gen16 c; ua_reason = None; ua_up = None; ua_codes = [] }), "UNSUBACK")
  | 8 -> (Pingresp, "PINGRESP")
  | 9 -> ((match v with
      | V5 -> Disconnect { d_rc = nn (if chance c.r 30 then 0 else pick c.r disconnect_codes); d_sei = opt c 25 (fun () -> gen32 c);
                           d_reason = opt c 30 (fun () -> gen_string c); d_up = gen_up c; d_server_ref = opt c 25 (fun () -> gen_string c) }
      | V311 -> Disconnect { d_rc = nn 0; d_sei = None; d_reason = None; d_up = None; d_server_ref = None }), "DISCONNECT")
  | _ -> (Auth { au_rc = nn (if chance c.r 30 then 0 else pick c.r auth_codes); au_method = opt c 50 (fun () -> gen_string c);
                 au_data = opt c 40 (fun () -> gen_binary c); au_reason = opt c 30 (fun () -> gen_string c); au_up = gen_up c }, "AUTH")

(* a random legal rearrangement of the property items: shuffle positions, then put the positions of
   items with the same identifier back into increasing order *)
let gen_order (r : rng) (p : packet) : BinNums.coq_N list =
  let items = Array.of_list (SpecEncodeS2C.items_of p) in
  let n = Array.length items in
  let perm = Array.init n (fun i -> i) in
  if not (chance r 15) then
    for i = n - 1 downto 1 do
      let j = rand_int r (i + 1) in let t = perm.(i) in perm.(i) <- perm.(j); perm.(j) <- t
    done;
  let id_of i = int_of_n (fst items.(i)) in
  let ids = L.sort_uniq compare (L.init n (fun i -> id_of i)) in
  L.iter (fun id ->
      let slots = L.filter (fun s -> id_of perm.(s) = id) (L.init n (fun s -> s)) in
      let members = L.sort compare (L.map (fun s -> perm.(s)) slots) in
      L.iter2 (fun s m -> perm.(s) <- m) slots members) ids;
  L.map nn (Array.to_list perm)

let encode_packet (c : ctx) (v : version) (p : packet) : int list option =
  let order = (match v with V5 -> gen_order c.r p | V311 -> []) in
  let compact = nn (rand_int c.r 3) in
  match SpecEncodeS2C.spec_encode_with v p order compact with
  | Some b -> Some (L.map int_of_n b)
  | None -> None

(* ---------------------------------------------------------------- chunkings *)
let hex_of_ints (l : int list) : string =
  let b = Buffer.create (1 + 2 * L.length l) in
  Buffer.add_char b 'x'; L.iter (fun x -> Buffer.add_string b (Printf.sprintf "%02x" (x land 255))) l; Buffer.contents b

(* cut points -> chunks; [cuts] sorted offsets in [0, n] (duplicates make empty chunks) *)
let split_at_cuts (a : int array) (cuts : int list) : int list list =
  let n = Array.length a in
  let cuts = L.sort compare (L.filter (fun x -> x >= 0 && x <= n) cuts) in
  let rec go start cuts acc = match cuts with
    | [] -> L.rev (Array.to_list (Array.sub a start (n - start)) :: acc)
    | c :: tl -> go c tl (Array.to_list (Array.sub a start (c - start)) :: acc) in
  go 0 cuts []

(* [marks] = interesting offsets (packet starts): cuts near them split the fixed header / length prefix *)
let gen_chunking (r : rng) (a : int array) (marks : int list) : int list list * string =
  let n = Array.length a in
  match rand_int r 6 with
  | 0 -> ([Array.to_list a], "whole")
  | 1 when n <= 400 -> (L.map (fun x -> [x]) (Array.to_list a), "bytewise")
  | 2 when marks <> [] ->
    let cuts = L.concat_map (fun m -> L.filter (fun _ -> chance r 60) [m + 1; m + 2; m + 3]) marks in
    (split_at_cuts a cuts, "header-splits")
  | 3 ->
    let k = 1 + rand_int r 3 in
    let cuts = L.init k (fun _ -> rand_int r (n + 1)) in
    let cuts = if chance r 20 then (match cuts with c :: _ -> c :: cuts | [] -> cuts) else cuts in   (* an empty read *)
    (split_at_cuts a cuts, "few")
  | _ ->
    let k = 1 + rand_int r 8 in
    (split_at_cuts a (L.init k (fun _ -> rand_int r (n + 1))), "random")

(* ---------------------------------------------------------------- model / implementation runs *)
let kind_name (k : Outcome.errkind) : string =
  match k with
  | Outcome.EUnimplemented -> "Unimplemented" | Outcome.EDecodingFailure -> "DecodingFailure"
  | Outcome.EProtocolError -> "ProtocolError" | Outcome.EEncodingFailure -> "EncodingFailure"
  | _ -> "Other"

(* verdict, packets text *)
let run_model (v : version) (max : int) (chunks : int list list) : string * string list =
  let chunks_n = L.map to_n chunks in
  let (((_, ps), r), idx) = Framing.decode_chunks v (nn max) Framing.decoder_init chunks_n BinNums.N0 in
  let verdict = (match r with
      | Outcome.Ok _ -> "ok"
      | Outcome.Err k -> Printf.sprintf "err:%s@%d" (kind_name k) (int_of_n idx)
      | Outcome.Panic s -> Printf.sprintf "panic:model-site-%d@%d" (int_of_n s) (int_of_n idx)) in
  (verdict, L.map Ptext.packet_to_text ps)

let dec_command (v : version) (max : int) (chunks : int list list) : string =
  String.concat " " ("DEC" :: vtok v :: string_of_int max :: L.map hex_of_ints chunks)

(* reply `<verdict> n=<k> <text> ; <text>` -> verdict, packets text *)
let parse_reply (reply : string) : string * string list =
  match String.index_opt reply ' ' with
  | None -> (reply, [])
  | Some i ->
    let verdict = String.sub reply 0 i in
    let rest = String.sub reply (i + 1) (String.length reply - i - 1) in
    (match String.index_opt rest ' ' with
     | None -> (verdict, [])
     | Some j ->
       let body = String.trim (String.sub rest (j + 1) (String.length rest - j - 1)) in
       if body = "" then (verdict, []) else
         (* split on " ; " *)
         let parts = ref [] and cur = Buffer.create 64 in
         let toks = String.split_on_char ' ' body in
         L.iter (fun t -> if t = ";" then (parts := String.trim (Buffer.contents cur) :: !parts; Buffer.clear cur)
                  else (Buffer.add_string cur t; Buffer.add_char cur ' ')) toks;
         parts := String.trim (Buffer.contents cur) :: !parts;
         (verdict, L.rev !parts))

let run_impl (h : harness) (v : version) (max : int) (chunks : int list list) : string * string list =
  parse_reply (ask h (dec_command v max chunks))

let verdict_kind (verdict : string) : string =
  match String.index_opt verdict '@' with Some i -> String.sub verdict 0 i | None -> verdict
let verdict_index (verdict : string) : int option =
  match String.index_opt verdict '@' with
  | Some i -> (try Some (int_of_string (String.sub verdict (i + 1) (String.length verdict - i - 1))) with _ -> None)
  | None -> None
let is_panic (verdict : string) = String.length verdict >= 5 && String.sub verdict 0 5 = "panic"

(* byte range [lo, hi) of chunk i *)
let chunk_range (chunks : int list list) (i : int) : int * int =
  let rec go k off = function
    | [] -> (off, off)
    | c :: tl -> let n = L.length c in if k = i then (off, off + n) else go (k + 1) (off + n) tl in
  go 0 0 chunks

let shorten (s : string) = if String.length s > 1500 then String.sub s 0 1500 ^ "..." else s

(* ---------------------------------------------------------------- one case *)
type failure = { kind : string; detail : string; signature : string }

(* expected = Some texts for valid streams; gate = Some offset of the byte completing the length
   field of the first packet whose announced size exceeds max (size-gate monitor) *)
(* MQTT-1.5.4-2 on a delivered packet (text as printed by the facade) *)
let has_nul_string (text : string) : bool =
  match (try Some (Ptext.packet_of_text text) with _ -> None) with
  | Some p -> not (StringsNoNul.packet_strings_no_nul p)
  | None -> false

let check_stream ?(must_fail = false) (h : harness) (v : version) (mx : int) (stream : int array) (ch1 : int list list) (ch2 : int list list)
    (expected : string list option) (gate : int option) (what : string) (dist : (string, int) Hashtbl.t) : failure option =
  let (iv1, ip1) = run_impl h v mx ch1 in
  let (iv2, ip2) = run_impl h v mx ch2 in
  let (mv1, mp1) = run_model v mx ch1 in
  let (mv2, mp2) = run_model v mx ch2 in
  bump dist ("verdict:" ^ verdict_kind iv1);
  let lim c = if String.length c > 20000 then shorten c else c in
  let cmd1 = lim (dec_command v mx ch1) and cmd2 = lim (dec_command v mx ch2) in
  let fail kind signature msg = Some { kind; signature; detail = Printf.sprintf "%s :: %s :: [1] %s => %s n=%d | [2] %s => %s n=%d | model [1] %s n=%d [2] %s n=%d"
                                          what msg cmd1 iv1 (L.length ip1) cmd2 iv2 (L.length ip2) mv1 (L.length mp1) mv2 (L.length mp2) } in
  (* property monitors on the implementation *)
  if is_panic iv1 || is_panic iv2 then fail "property" "panic" "implementation panicked"
  else if L.exists has_nul_string ip1 || L.exists has_nul_string ip2 then
    fail "property" "nul-in-string" "a delivered packet has a UTF-8 string field containing U+0000 (MQTT-1.5.4-2: must be treated as malformed)"
  else if must_fail && (iv1 = "ok" || iv2 = "ok") then
    fail "property" "malformed-accepted" "a stream the corpus marks REJECT (malformed by the specification) was accepted"
  else if (match expected with Some e -> iv1 <> "ok" || ip1 <> e || iv2 <> "ok" || ip2 <> e | None -> false) then begin
    let e = (match expected with Some e -> e | None -> []) in
    let first_bad = (try L.find (fun t -> not (L.mem t ip1)) e with Not_found -> "") in
    let kindname = (match String.index_opt first_bad ' ' with Some i -> String.sub first_bad 0 i | None -> first_bad) in
    let rc143 = kindname = "UNSUBACK" && (let toks = String.split_on_char ' ' first_bad in
                                          match L.rev toks with codes :: _ -> L.mem "143" (String.split_on_char ',' (String.sub codes 1 (max 0 (String.length codes - 2)))) | [] -> false) in
    fail "property" (Printf.sprintf "faithful:%s:v%s:%s%s" kindname (vtok v) (verdict_kind iv1) (if rc143 then ":unsuback-rc143" else ""))
      (Printf.sprintf "spec-conformant packets not decoded to their content; first missing: VALID %s %s ENDVALID" (vtok v) (shorten first_bad))
  end
  else if verdict_kind iv1 <> verdict_kind iv2 || ip1 <> ip2 then fail "property" "chunking" "two chunkings of the same stream give different packets / verdicts"
  else if (match verdict_index iv1, verdict_index iv2 with
      | Some i1, Some i2 -> let (a1, b1) = chunk_range ch1 i1 and (a2, b2) = chunk_range ch2 i2 in not (a1 < b2 && a2 < b1)
      | _ -> false) then fail "property" "chunking-position" "two chunkings fail at different bytes of the stream"
  else if (match gate with
      | Some off ->
        (* an error must be reported no later than by the call that consumes byte [off] (an earlier
           packet of the stream may already have been rejected) *)
        let ok_for iv ch = (match verdict_index iv with Some i -> let (a, _) = chunk_range ch i in a <= off | None -> false) in
        not (ok_for iv1 ch1 && ok_for iv2 ch2)
      | None -> false) then fail "property" "size-gate" "oversized announcement not rejected by the call that consumes the byte completing the length field"
  (* tie: the model agrees with the implementation *)
  else if iv1 <> mv1 || ip1 <> mp1 then fail "tie" "tie" "model and implementation disagree on chunking [1]"
  else if iv2 <> mv2 || ip2 <> mp2 then fail "tie" "tie" "model and implementation disagree on chunking [2]"
  else None

(* ---------------------------------------------------------------- streams *)
let gen_version (r : rng) = if chance r 65 then V5 else V311

(* valid stream: packets, their encodings *)
let gen_valid (c : ctx) (v : version) : (packet * string * int list) list =
  let n = 1 + (if chance c.r 50 then 0 else rand_int c.r 4) in
  let rec go k acc = if k = 0 then L.rev acc else
      let (p, name) = gen_packet c v in
      match encode_packet c v p with
      | Some b -> go (k - 1) ((p, name, b) :: acc)
      | None -> failwith ("spec encoder rejected a generated packet: " ^ Ptext.packet_to_text p) in
  go n []

let starts_of (encs : int list list) : int list =
  let rec go off = function [] -> [] | e :: tl -> off :: go (off + L.length e) tl in go 0 encs

(* OCaml-side VLI helpers for mutations *)
let rec vli_enc (x : int) : int list = if x < 128 then [x] else (x land 127 lor 128) :: vli_enc (x lsr 7)
let vli_dec (l : int list) : (int * int) option =   (* value, bytes used *)
  let rec go l shift acc used = match l with
    | [] -> None
    | b :: tl -> let acc = acc lor ((b land 127) lsl shift) in
      if b < 128 then Some (acc, used + 1) else if used >= 3 then None else go tl (shift + 7) acc (used + 1) in
  go l 0 0 0
let vli_nonminimal (x : int) (width : int) : int list =   (* x encoded on exactly [width] bytes (2..4) *)
  let rec go x w = if w = 1 then [x land 127] else (x land 127 lor 128) :: go (x lsr 7) (w - 1) in go x width

let reframe (enc : int list) (newlen : int list) : int list =
  match enc with
  | fb :: rest -> (match vli_dec rest with
      | Some (_, used) -> fb :: newlen @ (L.filteri (fun i _ -> i >= used) rest)
      | None -> enc)
  | [] -> []

(* raw property fuzz *)
let bad_strings = [ [0xC0; 0x80]; [0xED; 0xA0; 0x80]; [0xFF]; [0xF4; 0x90; 0x80; 0x80]; [0xE2; 0x82]; [0x80]; [0]; [0x61; 0] ]
let raw_string (r : rng) : int list =
  if chance r 12 then (let s = pick r bad_strings in [0; L.length s] @ s)
  else if chance r 6 then [rand_int r 256; rand_int r 256] @ gen_utf8 r (rand_int r 4)   (* prefix not matching *)
  else (let s = gen_utf8 r (rand_int r 6) in [0; L.length s] @ s)
let raw_item (r : rng) (ids : int list) : int list =
  let id = if chance r 80 then pick r ids else pick r [0; 1; 2; 3; 4; 8; 9; 11; 17; 18; 19; 21; 22; 23; 24; 25; 26; 28; 31; 33; 34; 35; 36; 37; 38; 39; 40; 41; 42; 43; 127; 128; 255] in
  let value = (match id with
      | 1 | 36 | 37 | 40 | 41 | 42 | 23 | 25 -> [pick r [0; 1; 1; 0; 2; 3; 255]]
      | 2 | 17 | 24 | 39 -> L.init (if chance r 8 then rand_int r 4 else 4) (fun _ -> rand_int r 256)
      | 19 | 33 | 34 | 35 -> L.init (if chance r 8 then rand_int r 2 else 2) (fun _ -> rand_int r 256)
      | 11 -> if chance r 10 then [0x80; 0x80; 0x80; 0x80; 1] else if chance r 10 then [0x81; 0x00] else vli_enc (rand_int r 300000)
      | 38 -> raw_string r @ raw_string r
      | 9 | 22 -> let n = rand_int r 5 in [0; n] @ L.init n (fun _ -> rand_int r 256)
      | 3 | 8 | 18 | 21 | 26 | 28 | 31 -> raw_string r
      | _ -> L.init (rand_int r 3) (fun _ -> rand_int r 256)) in
  id :: value
let raw_props_packet (r : rng) : int list * string =
  let items ids = L.concat (L.init (if chance r 15 then 0 else 1 + rand_int r 4) (fun _ -> raw_item r ids)) in
  let with_len props = (if chance r 6 then vli_enc (max 0 (L.length props + pick r [-1; 1; 2])) else if chance r 5 then vli_nonminimal (L.length props) 2 else vli_enc (L.length props)) @ props in
  let pid () = [rand_int r 256; rand_int r 256] in
  let (fb, body, name) = (match rand_int r 9 with
      | 0 -> (32, [pick r [0; 1; 1; 0; 2; 255]; (if chance r 85 then pick r connack_codes else rand_int r 256)] @ with_len (items [17; 33; 36; 37; 39; 18; 34; 31; 38; 40; 41; 42; 19; 26; 28; 21; 22]), "CONNACK")
      | 1 -> let qos = pick r [0; 1; 2; 2; 1; 0; 3] in
        let fb = 48 + (if rand_bool r then 8 else 0) + 2 * qos + (if rand_bool r then 1 else 0) in
        (fb, raw_string r @ (if qos > 0 then pid () else []) @ with_len (items [1; 2; 35; 8; 9; 38; 11; 3]) @ L.init (rand_int r 4) (fun _ -> rand_int r 256), "PUBLISH")
      | 2 | 3 ->
        let t = pick r [(64, puback_codes); (80, pubrec_codes); (98, pubrel_codes); (112, pubcomp_codes); (96, pubrel_codes); (66, puback_codes)] in
        (fst t, pid () @ [(if chance r 85 then pick r (snd t) else rand_int r 256)] @ with_len (items [31; 38]), "ACK")
      | 4 -> (144, pid () @ with_len (items [31; 38]) @ L.init (rand_int r 4) (fun _ -> if chance r 85 then pick r suback_codes else rand_int r 256), "SUBACK")
      | 5 -> (176, pid () @ with_len (items [31; 38]) @ L.init (rand_int r 4) (fun _ -> if chance r 85 then pick r unsuback_codes else pick r [144; 143; 1; 255]), "UNSUBACK")
      | 6 -> (224, [(if chance r 85 then pick r disconnect_codes else rand_int r 256)] @ with_len (items [17; 31; 38; 28]), "DISCONNECT")
      | 7 -> (240, [(if chance r 85 then pick r auth_codes else rand_int r 256)] @ with_len (items [21; 22; 31; 38]), "AUTH")
      | _ -> (pick r [16; 130; 162; 192; 0; 208; 209; 224; 225; 33], L.init (rand_int r 4) (fun _ -> rand_int r 256), "OTHER")) in
  (fb :: vli_enc (L.length body) @ body, name)

(* total size announced by the packet at the head of [enc]: 1 + length bytes + remaining length *)
let announced (enc : int list) : (int * int) option =   (* total, offset of the completing length byte *)
  match enc with fb :: rest -> (match vli_dec rest with Some (v, used) -> Some (1 + used + v, used) | None -> None) | [] -> None

type mcase = { mv : version; mmax : int; mstream : int list; mmarks : int list; mgate : int option; mwhat : string }

let gen_malformed (c : ctx) : mcase =
  let r = c.r in
  let v = gen_version r in
  c.big <- (if chance r 5 then 1 else 0);
  let valid = gen_valid c v in
  let encs = L.map (fun (_, _, b) -> b) valid in
  let stream = L.concat encs in
  let n = L.length stream in
  let marks = starts_of encs in
  let plain what s = { mv = v; mmax = (if chance r 85 then 0 else 1 + rand_int r 300); mstream = s; mmarks = marks; mgate = None; mwhat = what } in
  match rand_int r 10 with
  | 0 ->   (* bit flips *)
    let a = Array.of_list stream in
    if n > 0 then for _ = 1 to 1 + rand_int r 3 do let i = rand_int r n in a.(i) <- a.(i) lxor (1 lsl rand_int r 8) done;
    plain "bitflip" (Array.to_list a)
  | 1 ->   (* truncation (plus sometimes a following valid packet) *)
    let cut = if n = 0 then 0 else rand_int r n in
    let s = L.filteri (fun i _ -> i < cut) stream in
    plain "truncate" (if chance r 30 then s @ [208; 0] else s)
  | 2 ->   (* length-field edits on one packet *)
    let k = rand_int r (L.length encs) in
    let edited = L.mapi (fun i e -> if i <> k then e else
                            (match announced e with
                             | Some (total, used) ->
                               let rl = total - 1 - used in
                               let nl = (match rand_int r 7 with
                                   | 0 -> vli_enc (rl + 1) | 1 -> vli_enc (max 0 (rl - 1)) | 2 -> vli_enc (rand_int r 300)
                                   | 3 -> vli_nonminimal rl (if rl < 128 then 2 + rand_int r 3 else 4) | 4 -> [0xFF; 0xFF; 0xFF; 0xFF; 0x01]
                                   | 5 -> vli_enc 268435455 | _ -> vli_enc (rl + 2 + rand_int r 200)) in
                               reframe e nl
                             | None -> e)) encs in
    plain "length-edit" (L.concat edited)
  | 3 ->   (* random bytes *)
    let len = rand_int r 40 in
    let s = L.init len (fun i -> if i = 0 && chance r 70 then pick r [32; 48; 50; 52; 59; 64; 80; 98; 112; 144; 176; 208; 224; 240] else if i = 1 && chance r 60 then rand_int r 30 else rand_int r 256) in
    { (plain "random" s) with mmarks = [0] }
  | 4 | 5 ->   (* oversize announcement with a small maximum *)
    let k = rand_int r (L.length encs) in
    let sizes = L.map (fun e -> match announced e with Some (t, _) -> t | None -> 0) encs in
    let target = L.nth sizes k in
    let mx = max 1 (target - 1 - (if chance r 50 then 0 else rand_int r 3)) in
    (* first packet whose announced total exceeds mx *)
    let rec first off es = (match es with
        | [] -> None
        | e :: tl -> (match announced e with
            | Some (t, used) -> if t > mx then Some (off + used) else first (off + L.length e) tl
            | None -> None)) in
    let gate = first 0 encs in
    let s = if chance r 30 then (* drop the body of everything after the gate: the verdict must not need it *)
        (match gate with Some g -> L.filteri (fun i _ -> i <= g + rand_int r 3) stream | None -> stream) else stream in
    let gate = (match gate with Some g when g < L.length s -> Some g | _ -> None) in
    { mv = v; mmax = mx; mstream = s; mmarks = marks; mgate = gate; mwhat = "oversize" }
  | 6 ->   (* exact-fit maximum: must be accepted *)
    let sizes = L.map (fun e -> match announced e with Some (t, _) -> t | None -> 0) encs in
    let mx = L.fold_left max 1 sizes in
    { mv = v; mmax = mx; mstream = stream; mmarks = marks; mgate = None; mwhat = "exact-fit" }
  | 7 ->   (* insert / overwrite a run of random bytes *)
    let pos = if n = 0 then 0 else rand_int r n in
    let run = L.init (1 + rand_int r 4) (fun _ -> rand_int r 256) in
    let s = if rand_bool r then L.filteri (fun i _ -> i < pos) stream @ run @ L.filteri (fun i _ -> i >= pos) stream
      else L.mapi (fun i x -> if i >= pos && i < pos + L.length run then L.nth run (i - pos) else x) stream in
    plain "splice" s
  | _ ->   (* raw property fuzz, surrounded by valid packets *)
    let (raw, name) = raw_props_packet r in
    let before = if chance r 40 then (match encs with e :: _ when L.length e < 200 -> e | _ -> []) else [] in
    let after = if chance r 40 then [208; 0] else [] in
    { mv = (if chance r 85 then V5 else v); mmax = 0; mstream = before @ raw @ after; mmarks = [0; L.length before]; mgate = None; mwhat = "rawprops-" ^ name }

(* ---------------------------------------------------------------- tables *)
let tables : (string * (BinNums.coq_N -> bool) * (BinNums.coq_N -> bool)) list = [
  ("connect", ReasonCodes.impl_connack_code_ok, ReasonCodes.spec_connack_code_ok);
  ("puback", ReasonCodes.impl_puback_code_ok, ReasonCodes.spec_puback_code_ok);
  ("pubrec", ReasonCodes.impl_pubrec_code_ok, ReasonCodes.spec_pubrec_code_ok);
  ("pubrel", ReasonCodes.impl_pubrel_code_ok, ReasonCodes.spec_pubrel_code_ok);
  ("pubcomp", ReasonCodes.impl_pubcomp_code_ok, ReasonCodes.spec_pubcomp_code_ok);
  ("disconnect", ReasonCodes.impl_disconnect_code_ok, ReasonCodes.spec_disconnect_code_ok);
  ("suback", ReasonCodes.impl_suback_code_ok, ReasonCodes.spec_suback_code_ok);
  ("unsuback", ReasonCodes.impl_unsuback_code_ok, ReasonCodes.spec_unsuback_code_ok);
  ("auth", ReasonCodes.impl_auth_code_ok, ReasonCodes.spec_auth_code_ok);
  ("qos", ReasonCodes.impl_qos_ok, ReasonCodes.spec_qos_ok);
  ("pfi", ReasonCodes.impl_pfi_ok, ReasonCodes.spec_pfi_ok);
  ("connect311", ReasonCodes.impl_connack311_code_ok, ReasonCodes.spec_connack311_code_ok);
  ("suback311", ReasonCodes.impl_suback311_code_ok, ReasonCodes.spec_suback311_code_ok) ]

let run_tables (h : harness) (dist : (string, int) Hashtbl.t) : failure list * int * string list =
  let fails = ref [] and evals = ref 0 and lenient = ref [] in
  L.iter (fun (name, impl_f, spec_f) ->
      let reply = ask h ("TABLE " ^ name) in
      if String.length reply <> 256 then
        fails := { kind = "tie"; signature = "table"; detail = Printf.sprintf "TABLE %s -> %s" name (shorten reply) } :: !fails
      else begin
        let diff_model = ref [] and diff_spec = ref [] in
        for i = 255 downto 0 do
          incr evals;
          let code = (reply.[i] = '1') in
          if code <> impl_f (nn i) then diff_model := i :: !diff_model;
          (* monitor: spec is a subset of impl — every code the specification allows must be accepted; an
             implementation accepting MORE (UNSUBACK 144, kept for API compatibility) is fine for C03 *)
          if spec_f (nn i) && not code then diff_spec := i :: !diff_spec;
          if code && not (spec_f (nn i)) then lenient := (name, i) :: !lenient
        done;
        bump dist ("table:" ^ name);
        let show l = String.concat "," (L.map string_of_int l) in
        if !diff_spec <> [] then begin
          (* a replayable witness: a packet carrying the first code the specification allows and the implementation rejects *)
          let rejected = L.filter (fun i -> reply.[i] = '0') !diff_spec in
          let witness = (match rejected with
              | [] -> ""
              | c :: _ ->
                (match name with
                 | "connect" -> Printf.sprintf " witness: VALID 5 CONNACK 0 %d - - - - - - - - - - - - - - - - - ENDVALID" c
                 | "puback" -> Printf.sprintf " witness: VALID 5 PUBACK 1 %d - - ENDVALID" c
                 | "pubrec" -> Printf.sprintf " witness: VALID 5 PUBREC 1 %d - - ENDVALID" c
                 | "pubrel" -> Printf.sprintf " witness: VALID 5 PUBREL 1 %d - - ENDVALID" c
                 | "pubcomp" -> Printf.sprintf " witness: VALID 5 PUBCOMP 1 %d - - ENDVALID" c
                 | "disconnect" -> Printf.sprintf " witness: VALID 5 DISCONNECT %d - - - - ENDVALID" c
                 | "suback" -> Printf.sprintf " witness: VALID 5 SUBACK 1 - - [%d] ENDVALID" c
                 | "unsuback" -> Printf.sprintf " witness: VALID 5 UNSUBACK 1 - - [%d] ENDVALID" c
                 | "auth" -> Printf.sprintf " witness: VALID 5 AUTH %d - - - - ENDVALID" c
                 | "suback311" -> Printf.sprintf " witness: VALID 311 SUBACK 1 - - [%d] ENDVALID" c
                 | _ -> "")) in
          fails := { kind = "property"; signature = Printf.sprintf "table:%s:%s" name (show !diff_spec);
                     detail = Printf.sprintf "TABLE %s :: the compiled implementation rejects values the specification's table allows: [%s]%s"
                         name (show !diff_spec) witness } :: !fails
        end;
        if !diff_model <> [] then
          fails := { kind = "tie"; signature = "table-model:" ^ name;
                     detail = Printf.sprintf "TABLE %s :: the model's impl_ table differs from the compiled implementation at values [%s]" name (show !diff_model) } :: !fails
      end) tables;
  (L.rev !fails, !evals,
   L.map (fun (name, i) -> Printf.sprintf "table %s: the implementation also accepts %d, which the specification does not list (lenient; not a C03 violation)" name i) (L.rev !lenient))

(* ---------------------------------------------------------------- corpus / replay lines *)
(* Every occurrence of `DEC <version> <max> x.. x..` and of `VALID <version> <packet text> ENDVALID`
   in a line is a case (this also finds them inside the JSON replay files ./check writes).
   Two DEC occurrences of the same stream in one line are the two chunkings of one case. *)
type ccase =
  | CDec of version * int * int list list * int list list
  | CReject of version * int * int list list
  | CValid of version * packet

let is_hex_token (t : string) =
  String.length t >= 1 && t.[0] = 'x' && (String.length t) mod 2 = 1 &&
  (let ok = ref true in String.iteri (fun i ch -> if i > 0 && not ((ch >= '0' && ch <= '9') || (ch >= 'a' && ch <= 'f')) then ok := false) t; !ok)

let trim_json (t : string) : string =
  (* tokens inside the JSON replay files ./check writes may carry the quotes / commas of the enclosing string *)
  let n = String.length t in
  let a = ref 0 and b = ref n in
  while !a < !b && (t.[!a] = '"') do incr a done;
  while !b > !a && (t.[!b - 1] = '"' || t.[!b - 1] = ',') do decr b done;
  String.sub t !a (!b - !a)

let parse_line (line : string) : ccase list =
  let toks = L.filter (fun t -> t <> "") (L.map trim_json (split_ws line)) in
  let decs = ref [] and valids = ref [] and rejects = ref [] in
  let rec scan = function
    | "REJECT" :: v :: mx :: rest when (v = "5" || v = "311") && (try ignore (int_of_string mx); true with _ -> false) ->
      let rec take acc = function t :: tl when is_hex_token t -> take (L.map int_of_n (bytes_of_hex t) :: acc) tl | tl -> (L.rev acc, tl) in
      let (chunks, tl) = take [] rest in
      rejects := CReject ((if v = "5" then V5 else V311), int_of_string mx, chunks) :: !rejects; scan tl
    | "DEC" :: v :: mx :: rest when (v = "5" || v = "311") && (try ignore (int_of_string mx); true with _ -> false) ->
      let rec take acc = function t :: tl when is_hex_token t -> take (L.map int_of_n (bytes_of_hex t) :: acc) tl | tl -> (L.rev acc, tl) in
      let (chunks, tl) = take [] rest in
      decs := ((if v = "5" then V5 else V311), int_of_string mx, chunks) :: !decs; scan tl
    | "VALID" :: v :: rest when (v = "5" || v = "311") ->
      let rec take acc = function "ENDVALID" :: tl -> Some (L.rev acc, tl) | t :: tl -> take (t :: acc) tl | [] -> None in
      (match take [] rest with
       | Some (ptoks, tl) ->
         (try valids := CValid ((if v = "5" then V5 else V311), Ptext.packet_of_tokens ptoks) :: !valids with _ -> ());
         scan tl
       | None -> ())
    | _ :: tl -> scan tl
    | [] -> () in
  scan toks;
  let decs = L.rev !decs in
  let dec_cases = (match decs with
      | [(v1, m1, c1); (v2, m2, c2)] when v1 = v2 && m1 = m2 && L.concat c1 = L.concat c2 -> [CDec (v1, m1, c1, c2)]
      | l -> L.map (fun (v, m, c) -> CDec (v, m, c, [L.concat c])) l) in
  L.rev !valids @ dec_cases @ L.rev !rejects

let read_corpus (files : string list) : ccase list =
  L.concat_map (fun file ->
      try
        let ic = open_in file in
        let rec go acc = match input_line ic with
          | l -> if String.length l > 0 && l.[0] = '#' then go acc else go (L.rev_append (parse_line l) acc)
          | exception End_of_file -> close_in ic; L.rev acc in
        go []
      with Sys_error _ -> []) files

(* ---------------------------------------------------------------- main *)
let main (seed : int) (count : int) (harness_path : string) (extra : string list) =
  let r = rng_make seed in
  let c = { r; big = 0 } in
  let h = harness_start harness_path in
  let dist = Hashtbl.create 64 in
  let seen = Hashtbl.create 4096 in
  let fails = ref [] and samples = ref [] and events = ref 0 and nontrivial = ref 0 and cases = ref 0 in
  let record (f : failure option) = (match f with Some f -> if L.length !fails < 200 then fails := f :: !fails | None -> ()) in
  let note_stream (s : int list) (what : string) =
    let key = Digest.string (String.concat "," (L.map string_of_int s)) in
    if not (Hashtbl.mem seen key) then (Hashtbl.add seen key (); if L.length s >= 2 then incr nontrivial);
    if L.length !samples < 4 then samples := Printf.sprintf "%s: %s" what (shorten (hex_of_ints s)) :: !samples in
  (* (c) tables: shard 0 of a generated run only *)
  let table_evals = ref 0 and notes = ref [] in
  if seed mod 1000 = 0 && count > 0 then begin
    let (tf, ev, len_notes) = run_tables h dist in
    table_evals := ev; notes := len_notes; L.iter (fun f -> record (Some f)) tf
  end;
  (* corpus / replay *)
  let corpus = read_corpus extra in
  L.iter (fun cc ->
      incr cases; bump dist "corpus";
      match cc with
      | CDec (v, mx, ch1, ch2) ->
        let stream = L.concat ch1 in
        events := !events + L.length ch1 + L.length ch2;
        note_stream stream "corpus";
        record (check_stream h v mx (Array.of_list stream) ch1 ch2 None None "corpus" dist)
      | CReject (v, mx, ch1) ->
        let stream = L.concat ch1 in
        events := !events + L.length ch1 + L.length stream;
        note_stream stream "corpus-reject";
        record (check_stream ~must_fail:true h v mx (Array.of_list stream) ch1 (L.map (fun x -> [x]) stream) None None "corpus-reject" dist)
      | CValid (v, p) ->
        (match SpecEncodeS2C.spec_encode v p with
         | Some b ->
           let stream = L.map int_of_n b in
           let a = Array.of_list stream in
           events := !events + 2 + L.length stream;
           note_stream stream "corpus-valid";
           record (check_stream h v 0 a [stream] (L.map (fun x -> [x]) stream) (Some [Ptext.packet_to_text p]) None
                     ("corpus-valid v" ^ vtok v ^ " " ^ Ptext.packet_to_text p) dist)
         | None -> record (Some { kind = "tie"; signature = "corpus"; detail = "corpus VALID line is not encodable by the specification encoder: " ^ Ptext.packet_to_text p }))) corpus;
  for i = 1 to count do
    incr cases;
    if i mod 7 < 2 then begin
      (* (a) valid *)
      let v = gen_version r in
      c.big <- (if chance r 6 then 1 + rand_int r 2 else 0);
      let pk = gen_valid c v in
      let encs = L.map (fun (_, _, b) -> b) pk in
      let stream = L.concat encs in
      let a = Array.of_list stream in
      let marks = starts_of encs in
      let (ch1, m1) = gen_chunking r a marks in
      let (ch2, m2) = gen_chunking r a marks in
      let sizes = L.map L.length encs in
      let mx = if chance r 85 then 0 else L.fold_left max 1 sizes + (if chance r 50 then 0 else rand_int r 100) in
      bump dist "stream:valid"; bump dist ("version:" ^ vtok v); bump dist ("chunking:" ^ m1); bump dist ("chunking:" ^ m2);
      L.iter (fun (_, name, _) -> bump dist ("packet:" ^ name)) pk;
      events := !events + L.length ch1 + L.length ch2;
      let what = Printf.sprintf "valid v%s [%s] chunkings %s/%s" (vtok v) (String.concat "," (L.map (fun (_, nm, _) -> nm) pk)) m1 m2 in
      note_stream stream what;
      let expected = L.map (fun (p, _, _) -> Ptext.packet_to_text p) pk in
      record (check_stream h v mx a ch1 ch2 (Some expected) None what dist)
    end else begin
      (* (b) malformed *)
      let m = gen_malformed c in
      let a = Array.of_list m.mstream in
      let (ch1, m1) = gen_chunking r a m.mmarks in
      let (ch2, m2) = gen_chunking r a m.mmarks in
      bump dist "stream:malformed"; bump dist ("mutation:" ^ m.mwhat); bump dist ("version:" ^ vtok m.mv);
      bump dist ("chunking:" ^ m1); bump dist ("chunking:" ^ m2);
      if m.mgate <> None then bump dist "size-gate-checked";
      events := !events + L.length ch1 + L.length ch2;
      let what = Printf.sprintf "malformed(%s) v%s max=%d chunkings %s/%s" m.mwhat (vtok m.mv) m.mmax m1 m2 in
      note_stream m.mstream what;
      record (check_stream h m.mv m.mmax a ch1 ch2 None m.mgate what dist)
    end
  done;
  harness_stop h;
  print_endline (jobj [
    "cases", string_of_int !cases; "corpus_cases", string_of_int (L.length corpus); "events", string_of_int !events;
    "distinct_nontrivial", string_of_int !nontrivial;
    "x_table_entries_compared", string_of_int !table_evals;
    "notes", jlist (L.map jstr !notes);
    "distribution", jtable dist;
    "samples", jlist (L.map jstr (L.rev !samples));
    "failures", jlist (L.map (fun f -> jobj ["kind", jstr f.kind; "detail", jstr f.detail; "signature", jstr f.signature]) (L.rev !fails)) ])
