module L = Stdlib.List
module String = Stdlib.String
(* C02 correspondence: the encoder model (extracted Steps / ImplEncode) against the crate's Encoder through
   the facade command ENC, and the property monitor: for packets satisfying ValidC2S.valid the reference
   decoder SpecDecodeC2S.spec_decode applied to the IMPLEMENTATION's bytes must return exactly
   ValidC2S.canon of the packet with nothing left over, and the bytes must not depend on the capacities. *)
open Util
open Packets

let byte_tbl = Array.init 256 n_of_int
let nbytes (s : string) : BinNums.coq_N list = L.init (String.length s) (fun i -> byte_tbl.(Char.code s.[i]))
let n = n_of_int

(* ---------- generators ---------- *)
let add_cp (b : Buffer.t) (cp : int) =
  if cp < 0x80 then Buffer.add_char b (Char.chr cp)
  else if cp < 0x800 then (Buffer.add_char b (Char.chr (0xC0 lor (cp lsr 6))); Buffer.add_char b (Char.chr (0x80 lor (cp land 0x3F))))
  else if cp < 0x10000 then (Buffer.add_char b (Char.chr (0xE0 lor (cp lsr 12))); Buffer.add_char b (Char.chr (0x80 lor ((cp lsr 6) land 0x3F)));
                             Buffer.add_char b (Char.chr (0x80 lor (cp land 0x3F))))
  else (Buffer.add_char b (Char.chr (0xF0 lor (cp lsr 18))); Buffer.add_char b (Char.chr (0x80 lor ((cp lsr 12) land 0x3F)));
        Buffer.add_char b (Char.chr (0x80 lor ((cp lsr 6) land 0x3F))); Buffer.add_char b (Char.chr (0x80 lor (cp land 0x3F))))

(* exactly [len] bytes of well-formed UTF-8; boundary code points of every encoded length are favoured *)
let cp2 = [| 0x80; 0x7FF; 0xE9; 0x3A9 |]
let cp3 = [| 0x800; 0xFFFF; 0xD7FF; 0xE000; 0x20AC; 0xFEFF; 0xFFFD |]
let cp4 = [| 0x10000; 0x10FFFF; 0x1F600; 0x3FFFF; 0x40000; 0xFFFFF; 0x100000 |]
let gen_utf8 (r : rng) (len : int) : string =
  let b = Buffer.create (len + 4) in
  let rem = ref len in
  let ascii_only = len > 2000 && chance r 70 in
  while !rem > 0 do
    let k = if ascii_only || chance r 75 then 1 else 1 + rand_int r (min 4 !rem) in
    (match k with
     | 1 -> add_cp b (if chance r 95 then 0x20 + rand_int r 0x5F else 1 + rand_int r 0x7F)
     | 2 -> add_cp b (if chance r 50 then pick_arr r cp2 else 0x80 + rand_int r (0x800 - 0x80))
     | 3 -> add_cp b (if chance r 50 then pick_arr r cp3 else
                        let c = 0x800 + rand_int r (0x10000 - 0x800) in if c >= 0xD800 && c <= 0xDFFF then 0xE000 else c)
     | _ -> add_cp b (if chance r 50 then pick_arr r cp4 else 0x10000 + rand_int r (0x110000 - 0x10000)));
    rem := !rem - k
  done;
  let s = Buffer.contents b in
  (* rarely a U+0000, which the specifications forbid: tie only, the packet is not valid *)
  if len > 0 && chance r 1 then (let bs = Bytes.of_string s in
                                 (if Char.code (Bytes.get bs 0) < 0x80 then Bytes.set bs 0 '\000'); Bytes.to_string bs) else s

let gen_bin (r : rng) (len : int) : string = String.init len (fun _ -> Char.chr (rand_int r 256))

(* lengths: small random, the boundary pool 0/1/127/128/16383/16384/65535, rarely beyond u16 *)
let big_allowed = ref true
let slen (r : rng) : int =
  let x = rand_int r 1000 in
  if x < 620 then rand_int r 12
  else if x < 880 then pick r [0; 1; 127; 128]
  else if x < 975 then rand_int r 300
  else if not !big_allowed then rand_int r 40
  else if x < 990 then (big_allowed := false; pick r [16383; 16384])
  else if x < 997 then (big_allowed := false; 65535)
  else (big_allowed := false; pick r [65536; 65537; 70001])

let str r = nbytes (gen_utf8 r (slen r))
let nonempty_str r = nbytes (gen_utf8 r (max 1 (slen r)))
let bin r = nbytes (gen_bin r (slen r))
let opt r f = if rand_bool r then Some (f ()) else None
let u16 r = pick r [0; 1; 2; 255; 256; 65534; 65535; rand_int r 65536; rand_int r 65536]
let u16nz r = max 1 (u16 r)
let u32s r = pick r ["0"; "1"; "255"; "65535"; "65536"; "16777216"; "4294967294"; "4294967295"; string_of_int (rand_int r 1000000)]
let u32 r = n_of_string (u32s r)
let ups r : user_property list option =
  if chance r 45 then None
  else let k = if chance r 10 then 0 else if chance r 90 then 1 + rand_int r 3 else 4 + rand_int r 12 in
    Some (L.init k (fun _ -> { up_name = str r; up_value = str r }))
let qos r = n (rand_int r 3)
let pid r qos0 = if qos0 && chance r 50 then n 0 else if chance r 3 then n 0 else n (u16nz r)

let gen_publish r : publish =
  let q = rand_int r 3 in
  { pub_pid = (if q = 0 then (if chance r 70 then n 0 else n (u16 r)) else (if chance r 2 then n 0 else n (u16nz r)));
    pub_topic = (if chance r 4 then [] else nonempty_str r); pub_qos = n q;
    pub_dup = (if q = 0 then chance r 3 else rand_bool r); pub_retain = rand_bool r;
    pub_payload = opt r (fun () -> if chance r 10 then [] else bin r);
    pub_pfi = opt r (fun () -> n (rand_int r 2)); pub_mei = opt r (fun () -> u32 r);
    pub_alias = opt r (fun () -> n (u16 r)); pub_response_topic = opt r (fun () -> str r);
    pub_correlation = opt r (fun () -> bin r);
    pub_subids = (if chance r 90 then None else Some (L.init (rand_int r 3) (fun _ -> n_of_string (pick r ["1"; "127"; "128"; "16384"; "268435455"; "0"; "268435456"]))));
    pub_content_type = opt r (fun () -> str r); pub_up = ups r }

let rc_puback = [0; 16; 128; 131; 135; 144; 145; 151; 153]
let rc_pubrel = [0; 146]
let rc_disconnect = [0; 4; 128; 129; 130; 131; 135; 137; 139; 141; 142; 143; 144; 147; 148; 149; 150; 151; 152; 153;
                     154; 155; 156; 157; 158; 159; 160; 161; 162]
let gen_ack r codes : ack =
  let bare = chance r 30 in
  { ack_pid = pid r false; ack_rc = n (if chance r 40 then 0 else pick r codes);
    ack_reason = (if bare then None else opt r (fun () -> str r)); ack_up = (if bare then None else ups r) }

let gen_connect r : connect =
  let will = opt r (fun () -> gen_publish r) in
  let user = opt r (fun () -> str r) in
  { con_keep_alive = n (u16 r); con_clean_start = rand_bool r;
    con_client_id = (if chance r 15 then None else if chance r 10 then Some [] else Some (nonempty_str r));
    con_username = user;
    con_password = (if user = None && chance r 85 then None else opt r (fun () -> bin r));
    con_sei = opt r (fun () -> u32 r); con_rri = opt r (fun () -> rand_bool r); con_rpi = opt r (fun () -> rand_bool r);
    con_receive_max = opt r (fun () -> n (if chance r 3 then 0 else u16nz r));
    con_tam = opt r (fun () -> n (u16 r));
    con_max_packet = opt r (fun () -> if chance r 3 then n 0 else n_of_string (pick r ["1"; "128"; "65536"; "268435460"; "4294967295"]));
    con_auth_method = opt r (fun () -> str r);
    con_auth_data = (if chance r 70 then None else Some (bin r));
    con_will_delay = opt r (fun () -> u32 r); con_will = will; con_up = ups r }

let gen_subscribe r : subscribe =
  let k = if chance r 3 then 0 else if chance r 85 then 1 + rand_int r 3 else 4 + rand_int r 20 in
  { s_pid = pid r false;
    s_subs = L.init k (fun _ -> { sub_filter = (if chance r 2 then [] else nonempty_str r); sub_qos = qos r; sub_no_local = rand_bool r;
                                   sub_rap = rand_bool r; sub_rh = n (rand_int r 3) });
    s_subid = (if chance r 80 then None else Some (n_of_string (pick r ["1"; "127"; "128"; "16383"; "16384"; "2097151"; "2097152"; "268435455"; "0"; "268435456"; "4294967295"])));
    s_up = ups r }

let gen_unsubscribe r : unsubscribe =
  let k = if chance r 3 then 0 else if chance r 85 then 1 + rand_int r 3 else 4 + rand_int r 20 in
  { u_pid = pid r false; u_filters = L.init k (fun _ -> if chance r 2 then [] else nonempty_str r); u_up = ups r }

let gen_disconnect r : disconnect =
  let bare = chance r 30 in
  { d_rc = n (if chance r 40 then 0 else pick r rc_disconnect); d_sei = (if bare then None else opt r (fun () -> u32 r));
    d_reason = (if bare then None else opt r (fun () -> str r)); d_up = (if bare then None else ups r);
    d_server_ref = (if bare then None else opt r (fun () -> str r)) }

let gen_auth r : auth =
  let bare = chance r 30 in
  { au_rc = n (pick r [0; 24; 25]); au_method = (if bare then None else opt r (fun () -> str r));
    au_data = (if bare then None else opt r (fun () -> bin r)); au_reason = (if bare then None else opt r (fun () -> str r));
    au_up = (if bare then None else ups r) }

(* server -> client kinds: the non-test build refuses to encode them (Unimplemented); small fixed values *)
let gen_s2c r : packet =
  match rand_int r 4 with
  | 0 -> Connack { ca_session_present = rand_bool r; ca_rc = n 0; ca_sei = None; ca_receive_max = None; ca_max_qos = None;
                   ca_retain_avail = None; ca_max_packet = None; ca_assigned_id = None; ca_tam = None; ca_reason = None; ca_up = None;
                   ca_wildcard = None; ca_subid_avail = None; ca_shared = None; ca_server_keep_alive = None; ca_response_info = None;
                   ca_server_ref = None; ca_auth_method = None; ca_auth_data = None }
  | 1 -> Suback { sa_pid = n 1; sa_reason = None; sa_up = None; sa_codes = [n 0] }
  | 2 -> Unsuback { ua_pid = n 1; ua_reason = None; ua_up = None; ua_codes = [n 0] }
  | _ -> Pingresp

let gen_packet r : packet =
  big_allowed := true;
  let x = rand_int r 100 in
  if x < 26 then Publish (gen_publish r)
  else if x < 40 then Connect (gen_connect r)
  else if x < 52 then Subscribe (gen_subscribe r)
  else if x < 62 then Unsubscribe (gen_unsubscribe r)
  else if x < 68 then Puback (gen_ack r rc_puback)
  else if x < 74 then Pubrec (gen_ack r rc_puback)
  else if x < 80 then Pubrel (gen_ack r rc_pubrel)
  else if x < 86 then Pubcomp (gen_ack r rc_pubrel)
  else if x < 93 then Disconnect (gen_disconnect r)
  else if x < 97 then Auth (gen_auth r)
  else if x < 99 then Pingreq
  else gen_s2c r

let kind_name = function
  | Connect _ -> "CONNECT" | Connack _ -> "CONNACK" | Publish _ -> "PUBLISH" | Puback _ -> "PUBACK" | Pubrec _ -> "PUBREC"
  | Pubrel _ -> "PUBREL" | Pubcomp _ -> "PUBCOMP" | Subscribe _ -> "SUBSCRIBE" | Suback _ -> "SUBACK" | Unsubscribe _ -> "UNSUBSCRIBE"
  | Unsuback _ -> "UNSUBACK" | Pingreq -> "PINGREQ" | Pingresp -> "PINGRESP" | Disconnect _ -> "DISCONNECT" | Auth _ -> "AUTH"

type case = { v : version; res : resolution; caps : int list; fills : int list; pkt : packet }

let vname = function V5 -> "5" | V311 -> "311"

(* capacities >= 4 (rarely < 4: the encoder must panic, as the model says) with random prefill *)
let gen_caps r (approx_size : int) : int list * int list =
  let k = 1 + rand_int r 5 in
  let small = approx_size <= 600 in
  let cap () =
    if small then (if chance r 1 then rand_int r 4 else pick r [4; 5; 6; 7; 8; 9; 11; 16; 31; 64; 100; 128; 1000; 4096; 4 + rand_int r 60])
    else if approx_size <= 5000 then pick r [64; 100; 128; 129; 1000; 4096; 16384; 64 + rand_int r 4000]
    else pick r [1024; 4096; 16384; 65536; 65537; 131072; 1024 + rand_int r 70000] in
  let caps = L.init k (fun _ -> cap ()) in
  let fills = L.init (rand_int r (k + 1)) (fun i -> let c = L.nth caps i in
                                             if chance r 40 then 0 else if chance r 20 then max 0 (c - rand_int r 6) else rand_int r (c + 1)) in
  (caps, fills)

let gen_case r : case =
  let v = if chance r 60 then V5 else V311 in
  let pkt = gen_packet r in
  let res = (match pkt with
      | Publish _ ->
        if chance r 40 then no_resolution
        else { r_skip_topic = chance r 40; r_alias = (if chance r 75 then Some (n (if chance r 4 then 0 else u16nz r)) else None) }
      | _ -> if chance r 90 then no_resolution else { r_skip_topic = rand_bool r; r_alias = Some (n (u16 r)) }) in
  let approx = String.length (Ptext.packet_to_text pkt) / 2 in
  let (caps, fills) = gen_caps r approx in
  { v; res; caps; fills; pkt }

let case_command (c : case) (caps : int list) (fills : int list) : string =
  let il l = "[" ^ String.concat "," (L.map string_of_int l) ^ "]" in
  Printf.sprintf "ENC %s %d %s %s %s %s" (vname c.v) (if c.res.r_skip_topic then 1 else 0)
    (match c.res.r_alias with None -> "-" | Some a -> string_of_n a) (il caps) (il fills) (Ptext.packet_to_text c.pkt)

(* ---------- model side: the facade's loop (verif/codec.rs encode) over Steps.encode_call ---------- *)
type mres = MOk of BinNums.coq_N list * int (* calls *) | MErr of string | MPanic of string

let errname (k : Outcome.errkind) : string =
  match k with
  | Outcome.EUnimplemented -> "Unimplemented" | Outcome.EEncodingFailure -> "EncodingFailure"
  | Outcome.EPacketValidationFailure -> "PacketValidationFailure" | Outcome.EInternalStateError -> "InternalStateError"
  | _ -> "Other"

let model_encode (c : case) (caps : int list) (fills : int list) : mres =
  match ImplEncode.impl_steps c.v c.pkt c.res with
  | Outcome.Err k -> MErr (errname k)
  | Outcome.Panic s -> MPanic (string_of_n s)
  | Outcome.Ok steps ->
    let ncaps = L.length caps in
    let caps_a = Array.of_list caps and fills_a = Array.of_list fills in
    let out = ref [] (* reversed chunks *) and calls = ref 0 in
    let rec go steps index =
      let cap = caps_a.(min index (ncaps - 1)) in
      let fill = if index < Array.length fills_a then min fills_a.(index) cap else 0 in
      incr calls;
      match Steps.encode_call steps (n fill) (n cap) with
      | Outcome.Err k -> MErr (errname k)
      | Outcome.Panic s -> MPanic (string_of_n s)
      | Outcome.Ok (bs, rest) ->
        out := bs :: !out;
        if rest = [] then MOk (L.concat (L.rev !out), !calls)
        else if !calls > 10_000_000 then MPanic "no-progress"
        else go rest (index + 1) in
    go steps 0

(* call-count probe: cut the capacity list to exactly the number of calls the model needs (or one fewer) and append a
   capacity 3.  The facade reuses the last capacity until completion, so one encode call too many panics
   ("target buffer too small"): the NUMBER of calls becomes observable through ENC. *)
let probe_case (r : rng) (c : case) : case =
  if not (chance r 20) || L.exists (fun x -> x < 4) c.caps then c
  else match model_encode c c.caps c.fills with
    | MOk (_, k) ->
      let ncaps = L.length c.caps in
      let k' = if k >= 2 && chance r 30 then k - 1 else k in
      { c with caps = L.init k' (fun i -> L.nth c.caps (min i (ncaps - 1))) @ [3] }
    | _ -> c

(* ---------- one case ---------- *)
let short s = if String.length s > 600 then String.sub s 0 600 ^ "...(" ^ string_of_int (String.length s) ^ " chars)" else s

let run_case (h : harness) (c : case) (dist : (string, int) Hashtbl.t) : (string * string * string) list * int * bool =
  let kind = kind_name c.pkt in
  let tag = kind ^ "/" ^ vname c.v in
  bump dist ("kind:" ^ tag);
  let cmd = case_command c c.caps c.fills in
  let reply = ask h cmd in
  let m = model_encode c c.caps c.fills in
  let fails = ref [] in
  let fail k sigx detail = fails := (k, tag ^ "/" ^ sigx, detail) :: !fails in
  let is_valid = ValidC2S.valid c.v c.res c.pkt && L.for_all (fun x -> x >= 4) c.caps in
  bump dist (if is_valid then "valid" else "not-valid");
  if L.exists (fun x -> x < 4) c.caps && L.length c.caps >= 2 then bump dist "call-count-probe";
  let calls = (match m with MOk (_, k) -> k | _ -> 1) in
  let subid = (match c.pkt, c.v with Subscribe s, V5 when s.s_subid <> None -> true | _ -> false) in
  (* 1. tie: model = implementation *)
  let impl_bytes =
    (match split_ws reply with
     | ["ok"; hx] ->
       bump dist "impl:ok";
       let bs = bytes_of_hex hx in
       (match m with
        | MOk (mb, _) -> if mb <> bs then fail "tie" "bytes-differ" (Printf.sprintf "%s :: impl=%s model=%s" (short cmd) (short hx) (short (hex_of_bytes mb)))
        | MErr e -> fail "tie" "model-err" (Printf.sprintf "%s :: impl=%s model=err:%s" (short cmd) (short hx) e)
        | MPanic e -> fail "tie" "model-panic" (Printf.sprintf "%s :: impl=%s model=panic:%s" (short cmd) (short hx) e));
       Some bs
     | [w] when String.length w > 4 && String.sub w 0 4 = "err:" ->
       bump dist ("impl:" ^ w);
       (match m with
        | MErr e when "err:" ^ e = w -> ()
        | MOk (mb, _) -> fail "tie" "impl-err" (Printf.sprintf "%s :: impl=%s model=%s" (short cmd) w (short (hex_of_bytes mb)))
        | MErr e -> fail "tie" "err-kind" (Printf.sprintf "%s :: impl=%s model=err:%s" (short cmd) w e)
        | MPanic e -> fail "tie" "impl-err" (Printf.sprintf "%s :: impl=%s model=panic:%s" (short cmd) w e));
       None
     | w :: _ when String.length w > 6 && String.sub w 0 6 = "panic:" ->
       bump dist "impl:panic";
       (match m with
        | MPanic _ -> ()
        | MOk (mb, _) -> fail "tie" "impl-panic" (Printf.sprintf "%s :: impl=%s model=%s" (short cmd) w (short (hex_of_bytes mb)))
        | MErr e -> fail "tie" "impl-panic" (Printf.sprintf "%s :: impl=%s model=err:%s" (short cmd) w e));
       None
     | _ -> fail "tie" "harness" (Printf.sprintf "%s :: unexpected reply %s" (short cmd) (short reply)); None) in
  (* 2. property monitor on the implementation's bytes *)
  if is_valid then begin
    (match impl_bytes with
     | None -> fail "property" "valid-packet-not-encoded" (Printf.sprintf "%s :: a valid packet was not encoded: %s" (short cmd) (short reply))
     | Some bs ->
       let expect = ValidC2S.canon c.v c.res c.pkt in
       (match SpecDecodeC2S.spec_decode c.v bs with
        | Some (p, []) when p = expect -> bump dist "monitor:decoded-equal"
        | Some (p, rest) ->
          fail "property" (if subid then "subscription-identifier" else if rest <> [] then "trailing-bytes" else "content-differs")
            (Printf.sprintf "%s :: bytes=%s decode to [%s] (+%d bytes), expected [%s]" (short cmd) (short (hex_of_bytes bs))
               (short (Ptext.packet_to_text p)) (L.length rest) (short (Ptext.packet_to_text expect)))
        | None ->
          fail "property" (if subid then "subscription-identifier" else "not-well-formed")
            (Printf.sprintf "%s :: bytes=%s are rejected by the reference decoder, expected [%s]" (short cmd) (short (hex_of_bytes bs))
               (short (Ptext.packet_to_text expect))));
       (* independence of the capacity sequence: one buffer that holds everything *)
       let one = ask h (case_command c [2097152] []) in
       if one <> reply then
         fail "property" "fragmentation" (Printf.sprintf "%s :: with one large buffer the bytes are %s, with the given capacities %s" (short cmd) (short one) (short reply))
       else bump dist "monitor:fragmentation-independent")
  end;
  (* 3. the client path: the client never encodes a user packet that validation has not accepted
     (submission-time validate_packet_outbound, send-time validate_packet_outbound_internal), so a packet
     that is NOT valid for the wire specification must either be rejected by one of the two or still
     come out as a well-formed packet carrying its content *)
  let user_kind = (match c.pkt with Publish _ | Subscribe _ | Unsubscribe _ | Disconnect _ -> true | _ -> false) in
  (* only alias resolutions a resolver can produce (C17_*_inv): an alias is >= 1, the topic is skipped only with an alias *)
  let res_possible = (match c.res.r_alias with Some a -> int_of_n a >= 1 | None -> not c.res.r_skip_topic) in
  if (not is_valid) && user_kind && res_possible && L.for_all (fun x -> x >= 4) c.caps then begin
    let p0 = (match c.pkt with
        | Publish x -> Publish { x with pub_pid = n_of_int 0 }
        | Subscribe x -> Subscribe { x with s_pid = n_of_int 0 }
        | Unsubscribe x -> Unsubscribe { x with u_pid = n_of_int 0 }
        | p -> p) in
    let s_reply = ask h ("VSTATIC " ^ Ptext.packet_to_text p0) in
    let d_reply = ask h (Printf.sprintf "VDYN 2 0 65535 268435455 65535 0 1 1 1 1 0 x %d %s CO - 0 - - - - - - - - - - - NOWILL PKT %s"
                           (if c.res.r_skip_topic then 1 else 0) (match c.res.r_alias with None -> "-" | Some a -> string_of_n a)
                           (Ptext.packet_to_text c.pkt)) in
    bump dist ("client-path:static-" ^ (if s_reply = "ok" then "ok" else "rejected"));
    if s_reply = "ok" && d_reply = "ok" then begin
      bump dist "client-path:accepted-although-not-valid";
      (match impl_bytes with
       | None -> bump dist "client-path:accepted-but-encoder-refused"
       | Some bs ->
         let expect = ValidC2S.canon c.v c.res c.pkt in
         (match SpecDecodeC2S.spec_decode c.v bs with
          | Some (p, []) when p = expect -> bump dist "client-path:still-well-formed"
          | _ ->
            let text = Ptext.packet_to_text c.pkt in
            let has sub = (let n = String.length sub and m = String.length text in
                           let rec go i = i + n <= m && (String.sub text i n = sub || go (i + 1)) in go 0) in
            (* classes of known origin: a U+0000 inside a string field; a malformed $share filter *)
            (* is a U+0000 the only thing wrong?  replace every 00 byte of every hex token by 01 and ask the specification again *)
            let denul = (let b = Bytes.of_string text in
                         let n = Bytes.length b in
                         let i = ref 0 in
                         while !i < n do
                           if Bytes.get b !i = 'x' then begin
                             incr i;
                             let is_hex ch = (ch >= '0' && ch <= '9') || (ch >= 'a' && ch <= 'f') in
                             while !i + 1 < n && is_hex (Bytes.get b !i) && is_hex (Bytes.get b (!i + 1)) do
                               if Bytes.get b !i = '0' && Bytes.get b (!i + 1) = '0' then Bytes.set b (!i + 1) '1';
                               i := !i + 2
                             done
                           end else incr i
                         done; Bytes.to_string b) in
            let only_nul = denul <> text && (try ValidC2S.valid c.v c.res (Ptext.packet_of_text denul) with _ -> false) in
            let cls = if only_nul then "nul" else if has "2473686172652f" then "share" else "other" in
            fail "property" ("client-accepts-malformed:" ^ cls)
              (Printf.sprintf "%s :: accepted by validate_packet_outbound and validate_packet_outbound_internal, but the emitted bytes %s are not a well-formed packet carrying [%s]"
                 (short cmd) (short (hex_of_bytes bs)) (short (Ptext.packet_to_text expect)))))
    end
  end;
  (L.rev !fails, calls, is_valid && calls >= 2)

(* corpus lines: <version> <skip> <alias|-> [caps] [prefills] <packet text>;  '#' starts a comment line *)
let parse_corpus_line (l : string) : case option =
  match split_ws l with
  | v :: skip :: alias :: caps :: fills :: pkt when v = "5" || v = "311" ->
    let il t = L.map int_of_string (Ptext.list_items t) in
    Some { v = (if v = "5" then V5 else V311);
           res = { r_skip_topic = (skip = "1"); r_alias = (if alias = "-" then None else Some (n_of_string alias)) };
           caps = il caps; fills = il fills; pkt = Ptext.packet_of_tokens pkt }
  | _ -> None

let main (seed : int) (count : int) (harness_path : string) (corpus : string list) =
  let r = rng_make seed in
  let h = harness_start harness_path in
  let dist = Hashtbl.create 64 in
  let seen = Hashtbl.create 4096 in
  let fails = ref [] and samples = ref [] and events = ref 0 and nontrivial = ref 0 in
  let corpus_cases = L.concat_map (fun file ->
      let ic = open_in file in
      let rec go acc = match input_line ic with
        | l -> (match (try parse_corpus_line l with _ -> None) with Some c -> go (c :: acc) | None -> go acc)
        | exception End_of_file -> close_in ic; L.rev acc in
      go []) corpus in
  let ncorpus = L.length corpus_cases in
  let left = ref corpus_cases in
  for i = 1 to count + ncorpus do
    let c = (match !left with x :: tl -> left := tl; x | [] -> probe_case r (gen_case r)) in
    let (f, calls, interesting) = run_case h c dist in
    events := !events + calls;
    bump dist (if calls >= 2 then "calls:2+" else "calls:1");
    let key = Hashtbl.hash (Ptext.packet_to_text c.pkt, c.v, c.res, c.caps, c.fills) in
    if not (Hashtbl.mem seen key) then begin Hashtbl.add seen key (); if interesting then incr nontrivial end;
    if i <= 3 then samples := short (case_command c c.caps c.fills) :: !samples;
    fails := L.rev_append f !fails
  done;
  harness_stop h;
  print_endline (jobj [
    "cases", string_of_int (count + ncorpus); "corpus_cases", string_of_int ncorpus; "events", string_of_int !events;
    "distinct_nontrivial", string_of_int !nontrivial;
    "distribution", jtable dist;
    "samples", jlist (L.map jstr (L.rev !samples));
    "failures", jlist (L.map (fun (k, s, m) -> jobj ["kind", jstr k; "signature", jstr s; "detail", jstr m]) (L.rev !fails)) ])
