module L = Stdlib.List
module String = Stdlib.String
(* C12 correspondence, part 2: REAL tokio / threaded clients (new_tokio_client / new_threaded_client) on scripted
   in-memory transports with a scripted broker (harness command RUN, harness/src/ext_client_real.rs).
   Real scheduling is not controllable: a scenario fixes the ORDER of requests only through waits on observed
   client events, and only monitors are compared, never exact traces.  These runs SAMPLE schedules; the theorems
   quantify over all of them in the model.
   Monitors (extracted from Coq where they are lifecycle predicates):
     grammar      Driver.grammar_ok on the observed client events
     stop         after a final stop (no later start) and a settling time: the last lifecycle event is Stopped,
                  exactly one Stopped after the request, no Attempt after it
     restart      start after Stopped produces a new Attempt
     close        after close and a settling time nothing more is emitted; a later start does not revive the client
   Corpus / replay files: lines `<expect> RUN ...` with expect in {stop, close, restart, any}. *)
open Util
open Impl
open Driver

type fail = { kind : string; signature : string; detail : string }

let kind_of = Area_c12.kind_of
let cev_of = Area_c12.cev_of

let parse_list (s : string) : string list =
  let n = String.length s in
  if n < 2 then [] else let inner = String.sub s 1 (n - 2) in if inner = "" then [] else String.split_on_char ',' inner
let field (reply : string) (key : string) : string =
  let toks = split_ws reply in
  try let t = L.find (fun t -> String.length t > String.length key && String.sub t 0 (String.length key + 1) = key ^ "=") toks in
    String.sub t (String.length key + 1) (String.length t - String.length key - 1)
  with Not_found -> ""

let lifecycle (evs : string list) = L.filter (fun e -> e <> "Publish") evs
let head_name (e : string) = L.hd (String.split_on_char ':' e)

(* events after the k-th occurrence of marker-independent position: we only know the final list, so the
   expectations are phrased on the END of the list *)
let rec last = function [] -> None | [x] -> Some x | _ :: r -> last r

let check_scenario (expect : string) (scenario : string) (reply : string) : fail list =
  let fails = ref [] in
  let add kind signature detail = fails := { kind; signature; detail = scenario ^ " -> " ^ reply ^ " :: " ^ detail } :: !fails in
  let driver = (match split_ws scenario with _ :: d :: _ -> d | _ -> "?") in
  if String.length reply < 2 || String.sub reply 0 2 <> "ok" then begin
    add "property" ("real-run:" ^ (if reply = "panic" then "panic" else "bad")) "the scenario did not complete"
  end else begin
    let evs = parse_list (field reply "ev") in
    let life = lifecycle evs in
    (try
       if not (grammar_ok (L.map cev_of evs)) then add "property" ("event-grammar:real-" ^ driver) "observed client events violate the lifecycle grammar"
     with Failure m -> add "tie" "real-run:event-text" m);
    let notes = parse_list (field reply "notes") in
    let waitfail = L.exists (fun n -> String.length n >= 8 && String.sub n 0 8 = "waitfail") notes in
    (match expect with
     | "stop" ->
       (match last life with
        | Some "Stopped" -> ()
        | l -> add "property" ((if waitfail || true then "stop-does-not-stop:real-" else "") ^ driver)
                 (Printf.sprintf "a stop request without a later start: the last lifecycle event is %s, not Stopped" (match l with Some x -> x | None -> "(none)")))
     | "stopd-handshake" ->
       (match last life with
        | Some "Stopped" -> ()
        | l -> add "property" ("D13:real-" ^ driver)
                 (Printf.sprintf "stop-with-DISCONNECT requested during the handshake: the last lifecycle event is %s, no Stopped, no DISCONNECT written" (match l with Some x -> x | None -> "(none)")))
     | "restart" ->
       let rec after_stopped = function [] -> [] | "Stopped" :: r -> r | _ :: r -> after_stopped r in
       if not (L.exists (fun e -> e = "Attempt") (after_stopped life)) then
         add "property" ("restart-fails:real-" ^ driver) "start after Stopped produced no new Attempt"
     | "close" ->
       (* nothing may follow the events that were there when close was processed: we require that no Attempt follows a
          Stopped/last outcome at the end, i.e. the list does not END with an open attempt or a success *)
       (match last life with
        | Some "Attempt" | Some "Success" -> add "property" ("close-not-terminal:real-" ^ driver) "after close and the settling time the client is still attempting / connected"
        | _ -> ())
     | "close-then-start" ->
       (match last life with
        | Some "Attempt" | Some "Success" -> add "property" ("D13:close-not-terminal:real-" ^ driver) "a start() after close() revived the client"
        | _ -> ())
     | _ -> ());
    if waitfail && expect <> "stopd-handshake" && expect <> "close-then-start" then
      add "tie" ("real-run:wait-timeout:" ^ driver) ("a scripted wait timed out: " ^ String.concat "," notes)
  end;
  !fails

(* ---- generation ---- *)
let gen_conn r : string =
  let k = rand_int r 100 in
  if k < 15 then "conn=refuse"
  else if k < 22 then "conn=stall"
  else begin
    let w = if chance r 50 then "" else
        " w=" ^ String.concat "," (L.init (1 + rand_int r 6) (fun _ -> let j = rand_int r 100 in
                                                              if j < 60 then string_of_int (1 + rand_int r 9) else if j < 85 then "b" else if j < 93 then "i" else "e")) in
    let ack = (let j = rand_int r 100 in if j < 70 then "ack=ok" else if j < 85 then "ack=fail" else "ack=none") in
    let delay = if chance r 30 then Printf.sprintf " ackdelay=%d" (5 + rand_int r 40) else "" in
    let frag = if chance r 40 then Printf.sprintf " frag=%d" (1 + rand_int r 3) else "" in
    let en = (let j = rand_int r 100 in if j < 45 then "end=stay" else if j < 70 then Printf.sprintf "end=eofack:%d" (rand_int r 60)
              else if j < 80 then Printf.sprintf "end=errack:%d" (rand_int r 60) else if j < 90 then "end=eof0" else "end=eofpk:1") in
    Printf.sprintf "conn=ok%s %s%s%s %s" w ack delay frag en
  end

let gen_scenario r : string * string =
  let driver = if rand_bool r then "tokio" else "threaded" in
  let conns = String.concat " ; " (L.init (2 + rand_int r 4) (fun _ -> gen_conn r)) in
  let fam = rand_int r 100 in
  let pubs () = String.concat " " (L.init (rand_int r 3) (fun _ -> Printf.sprintf "pub%d:%d" (rand_int r 2) (rand_int r 40))) in
  if fam < 45 then
    (* stop at an arbitrary moment *)
    ("stop", Printf.sprintf "RUN %s 120 start sleep:%d %s stop sleep:450 ; %s" driver (rand_int r 120) (pubs ()) conns)
  else if fam < 60 then
    (* stop with DISCONNECT on an established connection *)
    ("stop", Printf.sprintf "RUN %s 120 start wait:Success:1 %s stopd sleep:350 ; conn=ok ack=ok end=stay ; %s" driver (pubs ()) conns)
  else if fam < 80 then
    ("restart", Printf.sprintf "RUN %s 120 start sleep:%d stop wait:Stopped:1 start sleep:200 ; %s ; conn=ok ; conn=ok" driver (rand_int r 80) conns)
  else
    ("close", Printf.sprintf "RUN %s 120 start sleep:%d %s close sleep:400 ; %s" driver (rand_int r 100) (pubs ()) conns)

let main (seed : int) (count : int) (harness_path : string) (extra : string list) =
  let r = rng_make seed in
  let h = harness_start harness_path in
  let dist = Hashtbl.create 16 in
  let fails = ref [] and samples = ref [] and cases = ref 0 and events = ref 0 and nontrivial = ref 0 in
  let run expect scenario =
    let reply = ask h scenario in
    incr cases;
    let evs = parse_list (field reply "ev") in
    events := !events + L.length evs;
    if L.length evs >= 2 then incr nontrivial;
    bump dist ("expect:" ^ expect);
    bump dist (match split_ws scenario with _ :: d :: _ -> "driver:" ^ d | _ -> "driver:?");
    (match last (lifecycle evs) with Some e -> bump dist ("last:" ^ head_name e) | None -> bump dist "last:(none)");
    if L.length !samples < 3 then samples := (scenario ^ " -> " ^ reply) :: !samples;
    L.iter (fun f -> if not (L.exists (fun g -> g.signature = f.signature) !fails) then fails := f :: !fails) (check_scenario expect scenario reply) in
  L.iter (fun file ->
      let ic = open_in file in
      (try while true do
           let line = String.trim (input_line ic) in
           if line <> "" && line.[0] <> '#' then
             match split_ws line with
             | expect :: "RUN" :: _ -> run expect (String.sub line (String.length expect + 1) (String.length line - String.length expect - 1))
             | _ -> ()
         done with End_of_file -> close_in ic)) extra;
  for _ = 1 to count do
    let (expect, scenario) = gen_scenario r in
    run expect scenario
  done;
  harness_stop h;
  print_endline (jobj [
    "cases", string_of_int !cases; "events", string_of_int !events; "distinct_nontrivial", string_of_int !nontrivial;
    "distribution", jtable dist; "samples", jlist (L.map jstr (L.rev !samples));
    "notes", jlist [jstr "real tokio / threaded clients on scripted transports: schedules are SAMPLED (monitors only), not enumerated"];
    "failures", jlist (L.map (fun f -> jobj ["kind", jstr f.kind; "detail", jstr f.detail; "signature", jstr f.signature]) (L.rev !fails)) ])
