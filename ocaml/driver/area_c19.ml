module L = Stdlib.List
module String = Stdlib.String
(* C19 correspondence: the back-off model (extracted Backoff) against MqttClientImpl. *)
open Util
open Backoff

let ns_pool = [| "0"; "1"; "999"; "1000000"; "500000000"; "999999999"; "1000000000"; "1000000001";
                 "2000000000"; "10000000000"; "120000000000"; "9223372036854775808";
                 "9223372036854775807999999999"; "9223372036854775808000000000";
                 "18446744073709551615999999999" |]
let stab_pool = [| "0"; "100000000"; "200000000"; "30000000000"; "18446744073709551615999999999" |]

type act = AWait | AConn of int option  (* age in ms *) | ASleep of int  (* real milliseconds *)

let gen_case (r : rng) =
  let jit = if chance r 70 then 0 else 1 in
  let base = pick_arr r ns_pool and mx = pick_arr r ns_pool and stab = pick_arr r stab_pool in
  let n = 1 + rand_int r (if chance r 20 then 80 else 12) in
  let stab_ms = (try int_of_string stab / 1_000_000 with _ -> max_int) in
  let acts = L.init n (fun _ ->
    if chance r 75 then AWait
    else if chance r 25 then AConn None
    else
      (* ages at least 60 ms away from the stability period on either side, at most 400 ms *)
      let cands = L.filter (fun a -> a >= 0 && a <= 400 && abs (a - stab_ms) >= 60)
                    [0; 20; stab_ms - 60; stab_ms + 60; stab_ms + 150; 300] in
      match cands with [] -> AConn None | _ -> AConn (Some (pick r cands))) in
  (* a short (unstable) connection, then real time passes beyond the stability period, then an attempt that
     reaches the transport but never gets a CONNACK: the old success time must have been forgotten *)
  let acts = if stab_ms >= 100 && stab_ms <= 200 && chance r 12 then
      acts @ [ AConn (Some 20); AWait; ASleep (stab_ms + 80); AConn None; AWait; AWait ]
    else acts in
  (jit, base, mx, stab, acts)

let act_to_string = function
  | AWait -> "wait" | AConn None -> "conn(no-connack)" | AConn (Some a) -> Printf.sprintf "conn(stable-for=%dms)" a
  | ASleep ms -> Printf.sprintf "sleep(%dms)" ms

let run_case (h : harness) (jit, base, mx, stab, acts) (dist : (string, int) Hashtbl.t) =
  let cfg = { c_jit = (if jit = 0 then JNone else JUniform); c_base = n_of_string base; c_max = n_of_string mx; c_stab = n_of_string stab } in
  let cfg_nojit = { cfg with c_jit = JNone } in
  let desc = Printf.sprintf "jitter=%d base=%sns max=%sns stability=%sns [%s]" jit base mx stab
      (String.concat "," (L.map act_to_string acts)) in
  let reply = ask h (Printf.sprintf "BNEW %d %s %s %s 1000000000" jit base mx stab) in
  if reply <> "ok" then (Some ("tie", desc ^ " :: BNEW -> " ^ reply), desc, 0)
  else begin
    let st = ref (init cfg) and stb = ref (init cfg_nojit) in
    let failure = ref None in
    let tie = ref None in
    let events = ref 0 in
    let check_next () =
      let nx = ask h "BNEXT" in
      let expect = "ok " ^ string_of_n (!st).s_next in
      if nx <> expect && !tie = None then
        tie := Some ("tie", Printf.sprintf "%s :: after %d events next period impl=%s model=%s" desc !events nx expect) in
    check_next ();
    L.iter (fun a ->
      if !failure = None then begin
        incr events;
        (match a with
         | AWait ->
           bump dist "wait";
           let reply = ask h "BWAIT" in
           let (s', o) = step !st (Wait N0) and (sb', ob) = step !stb (Wait N0) in
           st := s'; stb := sb';
           let bound = (match ob with [w] -> w | _ -> N0) in
           if jit = 0 then begin
             let expect = "ok " ^ string_of_n (match o with [w] -> w | _ -> N0) in
             if reply <> expect then
               failure := Some ("property", Printf.sprintf "%s :: wait #%d impl=%s formula=%s" desc !events reply expect)
           end else begin
             (* uniform jitter: result must lie in [0, bound) (0 when bound = 0) *)
             match split_ws reply with
             | ["ok"; v] ->
               let vb = big_of_string v and bb = big_of_string (string_of_n bound) in
               let le a b = (* a <= b on little-endian base 1e9 lists *)
                 let la = L.length a and lb = L.length b in
                 if la <> lb then la < lb else (L.rev a) <= (L.rev b) in
               let ok = if bb = [] then vb = [] else (le vb bb && vb <> bb) in
               if not ok then failure := Some ("property", Printf.sprintf "%s :: jittered wait #%d impl=%s outside [0,%s)" desc !events v (string_of_n bound))
             | _ -> failure := Some ("property", Printf.sprintf "%s :: wait #%d impl=%s (bound %s)" desc !events reply (string_of_n bound))
           end
         | ASleep ms ->
           bump dist "sleep";
           ignore (ask h (Printf.sprintf "BSLEEP %d" ms))
         | AConn age ->
           bump dist (match age with None -> "conn-no-success" | Some _ -> "conn-success");
           let reply = ask h (match age with None -> "BCONN -" | Some a -> Printf.sprintf "BCONN %d000000" a) in
           if reply <> "ok Connecting | ok Connected | ok PendingReconnect" then
             failure := Some ("tie", desc ^ " :: BCONN -> " ^ reply);
           let evs = (match age with
               | None -> [ConnEnd (n_of_int 5)]
               | Some a -> [Success N0; ConnEnd (n_of_string (Printf.sprintf "%d000000" (a + 1)))]) in
           L.iter (fun e -> st := fst (step !st e); stb := fst (step !stb e)) evs);
        check_next ()
      end) acts;
    ((match !failure with Some f -> Some f | None -> !tie), desc, !events)
  end

let main (seed : int) (count : int) (harness_path : string) (corpus : string list) =
  let r = rng_make seed in
  let h = harness_start harness_path in
  let dist = Hashtbl.create 16 in
  let seen = Hashtbl.create 1024 in
  let fails = ref [] and samples = ref [] and total_events = ref 0 and nontrivial = ref 0 in
  (* corpus: files of lines `<jit> <base_ns> <max_ns> <stab_ns> w,w,c-,c<age_ms>,...`; run first *)
  let corpus_cases = L.concat_map (fun file ->
      let ic = open_in file in
      let rec go acc = match input_line ic with
        | l -> (match split_ws l with
            | [j; b; m; st; acts] when j <> "#" ->
              let acts = L.map (fun a -> if a = "w" then AWait else if a = "c-" then AConn None
                                    else if a.[0] = 's' then ASleep (int_of_string (String.sub a 1 (String.length a - 1)))
                                    else AConn (Some (int_of_string (String.sub a 1 (String.length a - 1)))))
                  (String.split_on_char ',' acts) in
              go ((int_of_string j, b, m, st, acts) :: acc)
            | _ -> go acc)
        | exception End_of_file -> close_in ic; L.rev acc in
      go []) corpus in
  let ncorpus = L.length corpus_cases in
  let corpus_left = ref corpus_cases in
  for i = 1 to count + ncorpus do
    let c = (match !corpus_left with x :: tl -> corpus_left := tl; x | [] -> gen_case r) in
    let (f, desc, ev) = run_case h c dist in
    total_events := !total_events + ev;
    if not (Hashtbl.mem seen desc) then begin
      Hashtbl.add seen desc ();
      let (_, _, _, _, acts) = c in
      if L.length acts >= 2 then incr nontrivial
    end;
    if i <= 3 then samples := desc :: !samples;
    (match f with Some (k, m) -> fails := (k, m) :: !fails | None -> ())
  done;
  harness_stop h;
  print_endline (jobj [
    "cases", string_of_int (count + ncorpus); "corpus_cases", string_of_int ncorpus; "events", string_of_int !total_events;
    "distinct_nontrivial", string_of_int !nontrivial;
    "distribution", jtable dist;
    "samples", jlist (L.map jstr (L.rev !samples));
    "failures", jlist (L.map (fun (k, m) -> jobj ["kind", jstr k; "detail", jstr m]) (L.rev !fails)) ])
