module L = Stdlib.List
module String = Stdlib.String
(* C17 (resolver level) correspondence: the extracted Alias.Outbound / Alias.Inbound models against
   the real resolvers of gneiss-mqtt/src/alias.rs (facade commands RNEW/RRESET/RRES, INEW/IRESET/IRES).

   One case = one resolver + a sequence of reset(max) / resolve(alias, topic) operations.
   tie      : model reply <> implementation reply.
   property : monitor on the IMPLEMENTATION's replies — a reference server-side alias table
              (alias -> topic, cleared at every reset) replays the returned resolutions:
                alias Some a  => 1 <= a <= max announced at the last reset (none before a reset / max = 0)
                skip_topic    => alias present and table[a] = the topic passed to this call
                not skip      => table[a] := topic
              inbound: alias+topic binds (1 <= a <= max), alias+empty topic yields the latest
              binding since the last reset, otherwise err:InvalidInboundTopicAlias; a surfaced
              topic is never empty when an alias was given.
   Corpus / replay lines:  O <kind> <op>,<op>,...   with <op> = R<max> | S<alias|->:x<topic>
                           I <max> <op>,...         with <op> = R | S<alias|->:x<topic>
                           F <n>     (fill: LRU resolver lru:<n>, reset n, then n+2 distinct topics) *)
open Util
open Packets
open Outbound
open Inbound

type oop = OReset of int | OResolve of int option * string   (* topic as raw string *)
type case =
  | COut of string * oop list          (* kind token: null | manual | lru:<n> *)
  | CIn of int * oop list              (* OReset _ = reset *)
  | CFill of int

let topic_name i = Printf.sprintf "t/%d" i
let max_pool = [| 0; 0; 1; 2; 3; 4; 5; 8; 16; 65535 |]

let gen_ops (r : rng) ~(inbound : bool) : oop list =
  let n = 2 + rand_int r (if chance r 15 then 120 else 30) in
  let cur_max = ref 0 in
  let ntopics = ref 3 in
  L.init n (fun i ->
    if (i = 0 && chance r 85) || chance r 7 then begin
      let m = pick_arr r max_pool in
      cur_max := m;
      (* topic set smaller or larger than the maximum *)
      ntopics := (match rand_int r 4 with 0 -> 1 + m / 2 | 1 -> m + 1 + rand_int r 4 | 2 -> max 1 m | _ -> 1 + rand_int r 6);
      if !ntopics > 40 then ntopics := 1 + rand_int r 40;
      OReset m
    end else begin
      let topic = if inbound && chance r 35 then "" else if chance r 3 then "" else topic_name (rand_int r !ntopics) in
      let alias =
        if chance r (if inbound then 15 else 30) then None
        else Some (match rand_int r 10 with
            | 0 -> 0 | 1 -> !cur_max | 2 -> !cur_max + 1 | 3 -> 65535
            | _ -> 1 + rand_int r (max 1 (min 12 (!cur_max + 1)))) in
      let alias = (match alias with Some a when a > 65535 -> Some 65535 | a -> a) in
      OResolve (alias, topic)
    end)

let gen_case (r : rng) : case =
  match rand_int r 10 with
  | 0 -> COut ("null", gen_ops r ~inbound:false)
  | 1 | 2 | 3 -> COut ("manual", gen_ops r ~inbound:false)
  | 4 | 5 | 6 | 7 -> COut (Printf.sprintf "lru:%d" (pick_arr r [| 0; 1; 2; 3; 4; 5; 8; 65535 |]), gen_ops r ~inbound:false)
  | _ -> CIn (pick_arr r [| 0; 1; 2; 3; 8; 65535 |], gen_ops r ~inbound:true)

let hex_s (s : string) = hex_of_bytes (bytes_of_string s)
let op_to_string ~inbound = function
  | OReset m -> if inbound then "R" else Printf.sprintf "R%d" m
  | OResolve (a, t) -> Printf.sprintf "S%s:%s" (match a with None -> "-" | Some a -> string_of_int a) (hex_s t)
let case_to_string = function
  | COut (k, ops) -> Printf.sprintf "O %s %s" k (String.concat "," (L.map (op_to_string ~inbound:false) ops))
  | CIn (m, ops) -> Printf.sprintf "I %d %s" m (String.concat "," (L.map (op_to_string ~inbound:true) ops))
  | CFill n -> Printf.sprintf "F %d" n

let string_of_hex (t : string) : string =
  let l = bytes_of_hex t in String.init (L.length l) (fun i -> Char.chr (int_of_n (L.nth l i)))
let parse_op (t : string) : oop =
  if t = "R" then OReset 0
  else if t.[0] = 'R' then OReset (int_of_string (String.sub t 1 (String.length t - 1)))
  else match String.split_on_char ':' (String.sub t 1 (String.length t - 1)) with
    | [a; x] -> OResolve ((if a = "-" then None else Some (int_of_string a)), string_of_hex x)
    | _ -> failwith ("bad op " ^ t)
let parse_case (l : string) : case option =
  match split_ws l with
  | ["O"; k; ops] -> Some (COut (k, L.map parse_op (String.split_on_char ',' ops)))
  | ["I"; m; ops] -> Some (CIn (int_of_string m, L.map parse_op (String.split_on_char ',' ops)))
  | ["F"; n] -> Some (CFill (int_of_string n))
  | _ -> None

let kind_of_token (k : string) : resolver_kind =
  if k = "null" then RNull else if k = "manual" then RManual
  else RLru (n_of_int (int_of_string (String.sub k 4 (String.length k - 4))))

let res_text (r : resolution) =
  Printf.sprintf "%s %s" (if r.r_skip_topic then "1" else "0") (match r.r_alias with None -> "-" | Some a -> string_of_n a)

type fail = { kind : string; detail : string; signature : string }

(* runs one outbound sequence; returns first failure *)
let run_out ?(impl_only = 0) ?(model_state_after : ores option) (h : harness) (kind : string) (ops : oop list) (desc : string) (dist : (string, int) Hashtbl.t) : fail option * int =
  let fail = ref None and tie = ref None and events = ref 0 in
  if ask h ("RNEW " ^ kind) <> "ok" then (Some { kind = "tie"; detail = desc ^ " :: RNEW failed"; signature = "c17r-rnew" }, 0)
  else begin
    let st = ref (ores_init (kind_of_token kind)) in
    let model_dead = ref false in
    let table : (int, string) Hashtbl.t = Hashtbl.create 16 in
    let server_max = ref 0 in
    L.iteri (fun i op ->
      if !fail = None then begin
        incr events;
        match op with
        | OReset m ->
          bump dist "reset";
          ignore (ask h (Printf.sprintf "RRESET %d" m));
          st := ores_reset !st (n_of_int m);
          Hashtbl.reset table; server_max := m
        | OResolve (alias, topic) ->
          let reply = ask h (Printf.sprintf "RRES %s %s" (match alias with None -> "-" | Some a -> string_of_int a) (hex_s topic)) in
          (* model *)
          if i = impl_only then (match model_state_after with Some s -> st := s | None -> ());
          let expect =
            if i < impl_only then reply
            else if !model_dead then "panic"
            else match ores_resolve !st (match alias with None -> None | Some a -> Some (n_of_int a)) (bytes_of_string topic) with
              | Outcome.Ok (s', r) -> st := s'; res_text r
              | Outcome.Panic _ -> model_dead := true; "panic"
              | Outcome.Err _ -> "err" in
          if reply <> expect && !tie = None then
            tie := Some { kind = "tie"; detail = Printf.sprintf "%s :: op #%d impl=%s model=%s" desc i reply expect; signature = "c17r-outbound-tie" };
          (* monitor on the implementation's reply *)
          let bad what sg = fail := Some { kind = "property"; detail = Printf.sprintf "%s :: op #%d (%s) reply=%s: %s" desc i (op_to_string ~inbound:false op) reply what; signature = sg } in
          (match split_ws reply with
           | ["panic"] -> bad "resolver panicked" "c17r-panic"
           | [skip; a] ->
             let skip = (skip = "1") in
             (match a with
              | "-" -> bump dist "resolve-noalias"; if skip then bad "skip_topic without alias" "c17r-skip-without-alias"
              | a ->
                let a = int_of_string a in
                if a < 1 || a > !server_max then bad (Printf.sprintf "alias outside 1..%d" !server_max) (if a = 0 then "c17r-alias-zero" else "c17r-alias-range")
                else if skip then begin
                  bump dist "resolve-skip";
                  match Hashtbl.find_opt table a with
                  | Some t when t = topic -> ()
                  | Some t -> bad (Printf.sprintf "server table maps alias to %s" (hex_s t)) "c17r-wrong-topic"
                  | None -> bad "server never saw this alias" "c17r-unknown-alias"
                end else (bump dist "resolve-bind"; Hashtbl.replace table a topic))
           | _ -> bad "unparsable reply" "c17r-reply")
      end) ops;
    ((match !fail with Some f -> Some f | None -> !tie), !events)
  end

let run_in (h : harness) (mx : int) (ops : oop list) (desc : string) (dist : (string, int) Hashtbl.t) : fail option * int =
  let fail = ref None and tie = ref None and events = ref 0 in
  ignore (ask h (Printf.sprintf "INEW %d" mx));
  let st = ref (ires_init (n_of_int mx)) in
  let table : (int, string) Hashtbl.t = Hashtbl.create 16 in
  L.iteri (fun i op ->
    if !fail = None then begin
      incr events;
      match op with
      | OReset _ -> bump dist "in-reset"; ignore (ask h "IRESET"); st := ires_reset !st; Hashtbl.reset table
      | OResolve (alias, topic) ->
        let reply = ask h (Printf.sprintf "IRES %s %s" (match alias with None -> "-" | Some a -> string_of_int a) (hex_s topic)) in
        let expect =
          match ires_resolve !st (match alias with None -> None | Some a -> Some (n_of_int a)) (bytes_of_string topic) with
          | Outcome.Ok (s', t) -> st := s'; "ok " ^ hex_of_bytes t
          | Outcome.Err Outcome.EInvalidInboundTopicAlias -> "err:InvalidInboundTopicAlias"
          | Outcome.Err _ -> "err:other"
          | Outcome.Panic _ -> "panic" in
        if reply <> expect && !tie = None then
          tie := Some { kind = "tie"; detail = Printf.sprintf "%s :: op #%d impl=%s model=%s" desc i reply expect; signature = "c17r-inbound-tie" };
        (* reference *)
        let reference =
          match alias with
          | None -> bump dist "in-noalias"; "ok " ^ hex_s topic
          | Some a ->
            if topic = "" then
              (match Hashtbl.find_opt table a with
               | Some t -> bump dist "in-lookup-hit"; "ok " ^ hex_s t
               | None -> bump dist "in-lookup-miss"; "err:InvalidInboundTopicAlias")
            else if a < 1 || a > mx then (bump dist "in-out-of-range"; "err:InvalidInboundTopicAlias")
            else (bump dist "in-bind"; Hashtbl.replace table a topic; "ok " ^ hex_s topic) in
        if reply <> reference then
          fail := Some { kind = "property"; detail = Printf.sprintf "%s :: op #%d (%s) impl=%s reference=%s" desc i (op_to_string ~inbound:true op) reply reference; signature = "c17r-inbound" }
        else if alias <> None && reply = "ok x" then
          fail := Some { kind = "property"; detail = Printf.sprintf "%s :: op #%d empty topic surfaced with an alias" desc i; signature = "c17r-inbound-empty" }
    end) ops;
  ((match !fail with Some f -> Some f | None -> !tie), !events)

let find_sub (d : string) (pat : string) : int =
  let n = String.length d and m = String.length pat in
  let rec go i = if i + m > n then 0 else if String.sub d i m = pat then i else go (i + 1) in go 0
(* distinct topic #i as 3 bytes *)
let fill_topic i = Printf.sprintf "%c%c%c" (Char.chr (97 + i / 4096)) (Char.chr (48 + (i / 64) mod 64)) (Char.chr (48 + i mod 64))

let run_case (h : harness) (c : case) (dist : (string, int) Hashtbl.t) : fail option * string * int =
  let desc = case_to_string c in
  match c with
  | COut (k, ops) -> bump dist ("outbound-" ^ (if String.length k > 3 && String.sub k 0 3 = "lru" then "lru" else k));
    let (f, e) = run_out h k ops desc dist in (f, desc, e)
  | CIn (m, ops) -> bump dist "inbound"; let (f, e) = run_in h m ops desc dist in (f, desc, e)
  | CFill n ->
    bump dist "outbound-lru-fill";
    let ops = OReset n :: L.init (n + 2) (fun i -> OResolve (None, fill_topic i)) in
    (* large fills (n > 2000): the first n+1 operations (reset + n distinct topics) run on the implementation
       under the monitor only (the list-based model is quadratic); the model resumes from the state it
       reaches after such a fill — aliases 1..n in insertion order, most recent first — which the lock-step
       runs with n <= 2000 (e.g. corpus line `F 3`) exercise step by step *)
    let big = n > 2000 in
    let filled = OLru (n_of_int n, n_of_int n, L.rev (L.init n (fun i -> (bytes_of_string (fill_topic i), n_of_int (i + 1))))) in
    let (f, e) =
      if big then run_out ~impl_only:(n + 1) ~model_state_after:filled h (Printf.sprintf "lru:%d" n) ops desc dist
      else run_out h (Printf.sprintf "lru:%d" n) ops desc dist in
    (* keep the description short *)
    ((match f with Some f -> Some { f with detail = (let d = f.detail in
                                                      let cut = find_sub d " :: " in
                                                      desc ^ String.sub d cut (String.length d - cut)) } | None -> None), desc, e)

let read_cases (file : string) : case list =
  let ic = open_in file in
  let rec go acc = match input_line ic with
    | l -> (if String.length l > 0 && l.[0] = '#' then go acc else match parse_case l with Some c -> go (c :: acc) | None -> go acc)
    | exception End_of_file -> close_in ic; L.rev acc in
  (* replay files written by ./check are JSON: take the case from failure.detail *)
  let cases = go [] in
  cases

let main (seed : int) (count : int) (harness_path : string) (extra : string list) =
  let r = rng_make seed in
  let h = harness_start harness_path in
  let dist = Hashtbl.create 16 in
  let seen = Hashtbl.create 1024 in
  let fails = ref [] and samples = ref [] and total_events = ref 0 and nontrivial = ref 0 in
  let corpus_cases = L.concat_map read_cases (L.filter (fun f -> Sys.file_exists f) extra) in
  let ncorpus = L.length corpus_cases in
  let corpus_left = ref corpus_cases in
  for i = 1 to count + ncorpus do
    let c = (match !corpus_left with x :: tl -> corpus_left := tl; x | [] -> gen_case r) in
    let (f, desc, ev) = run_case h c dist in
    total_events := !total_events + ev;
    if not (Hashtbl.mem seen desc) then begin
      Hashtbl.add seen desc ();
      if ev >= 3 then incr nontrivial
    end;
    if i <= 3 then samples := (if String.length desc > 300 then String.sub desc 0 300 ^ "..." else desc) :: !samples;
    (match f with Some f -> fails := f :: !fails | None -> ())
  done;
  harness_stop h;
  print_endline (jobj [
    "cases", string_of_int (count + ncorpus); "corpus_cases", string_of_int ncorpus; "events", string_of_int !total_events;
    "distinct_nontrivial", string_of_int !nontrivial;
    "distribution", jtable dist;
    "samples", jlist (L.map jstr (L.rev !samples));
    "failures", jlist (L.map (fun f -> jobj ["kind", jstr f.kind; "detail", jstr f.detail; "signature", jstr f.signature]) (L.rev !fails)) ])
