module L = Stdlib.List
module String = Stdlib.String
(* C20 correspondence: the AWS builder model (extracted UrlEncode / Builder) against gneiss-mqtt-aws
   through the harness commands AWSENC / AWSENCTABLE / AWSAUTH / AWSCONN / AWSDEF / AWS*DEFAULT.

   kind=tie       model and implementation disagree (any input, in or out of the property's domain)
   kind=property  the property's monitor fails on the IMPLEMENTATION's output.  The monitors in this file
                  are written directly in OCaml (independent query-string parser, token-wise option
                  comparison); the extracted Coq monitors are evaluated as well and must agree.

   Corpus / replay lines (tokens: `-` absent, x<hex>):
     auth <name> <sig> <key> <value> <user> <pass> <logical-signature|->
     conn NOAUTH <connect options>      |   conn AUTH <name> <sig> <key> <value> <user> <pass> <connect options>
     def <11 client option tokens>
   A replay file written by ./check carries such a line in its "case" field. *)
open Util
open Packets
open UrlEncode
open Builder

(* ------------------------------------------------------------------ helpers *)
let str_of_bytes (l : BinNums.coq_N list) : string =
  let b = Buffer.create 16 in L.iter (fun n -> Buffer.add_char b (Char.chr (int_of_n n land 255))) l; Buffer.contents b
let bytes_of_str = bytes_of_string
let hex_of_str (s : string) : string =
  let b = Buffer.create (1 + 2 * String.length s) in
  Buffer.add_char b 'x'; String.iter (fun c -> Buffer.add_string b (Printf.sprintf "%02x" (Char.code c))) s; Buffer.contents b
let str_of_hex (t : string) : string = str_of_bytes (bytes_of_hex t)
let otok f = function None -> "-" | Some x -> f x
let ptok f t = if t = "-" then None else Some (f t)
let printable (s : string) : string =
  String.concat "" (L.map (fun c -> if Char.code c >= 32 && Char.code c < 127 && c <> '\\' then String.make 1 c else Printf.sprintf "\\x%02x" (Char.code c))
                      (L.init (String.length s) (String.get s)))
let oprint = function None -> "None" | Some s -> "\"" ^ printable s ^ "\""

(* ------------------------------------------------------------------ independent reference (OCaml, not extracted) *)
let is_unreserved c = (c >= '0' && c <= '9') || (c >= 'A' && c <= 'Z') || (c >= 'a' && c <= 'z') || c = '-' || c = '.' || c = '_' || c = '~'
let hexv c = match c with
  | '0'..'9' -> Some (Char.code c - 48) | 'A'..'F' -> Some (Char.code c - 55) | 'a'..'f' -> Some (Char.code c - 87) | _ -> None
let ref_decode (s : string) : string =
  let b = Buffer.create (String.length s) in
  let n = String.length s in
  let i = ref 0 in
  while !i < n do
    (if s.[!i] = '%' && !i + 2 <= n - 1 then
       match hexv s.[!i + 1], hexv s.[!i + 2] with
       | Some a, Some c -> Buffer.add_char b (Char.chr (16 * a + c)); i := !i + 2
       | _ -> Buffer.add_char b '%'
     else Buffer.add_char b s.[!i]);
    incr i
  done;
  Buffer.contents b
let ref_query_char c = is_unreserved c || String.contains "!$&'()*+,;=:@/?" c
let ref_query_wf (s : string) : bool =
  let n = String.length s in
  let rec go i =
    if i >= n then true
    else if s.[i] = '%' then i + 2 <= n - 1 && hexv s.[i + 1] <> None && hexv s.[i + 2] <> None && go (i + 3)
    else ref_query_char s.[i] && go (i + 1) in
  go 0
let ref_split_first (sep : char) (s : string) : string * string option =
  match String.index_opt s sep with
  | None -> (s, None)
  | Some i -> (String.sub s 0 i, Some (String.sub s (i + 1) (String.length s - i - 1)))
let ref_parse_query (q : string) : (string * string) list =
  if q = "" then []
  else L.map (fun p -> match ref_split_first '=' p with
      | (k, Some v) -> (ref_decode k, ref_decode v)
      | (k, None) -> (ref_decode k, "")) (String.split_on_char '&' q)
let ref_safe (s : string) : bool =
  let ok = ref true in String.iter (fun c -> if not (ref_query_char c) || c = '&' || c = '=' then ok := false) s; !ok
let ref_uri_encoded (s : string) : bool = ref_query_wf s && not (String.contains s '&') && not (String.contains s '=')
let starts_with (p : string) (s : string) = String.length s >= String.length p && String.sub s 0 (String.length p) = p

let name_param = "x-amz-customauthorizer-name"
let sig_param = "x-amz-customauthorizer-signature"

(* ------------------------------------------------------------------ case types *)
type auth = { name : string option; signed : (string * string * string) option; user : string option; pass : string option;
              logical : string option  (* raw base64 signature the configured one stands for; None = outside the property's domain *) }

type case =
  | CEnc of string
  | CAuth of auth
  | CConn of auth option * string list      (* connect option tokens *)
  | CDef of string list                      (* 11 client option tokens *)

let auth_tokens (a : auth) : string list =
  let (sg, k, v) = match a.signed with Some (s, k, v) -> (Some s, Some k, Some v) | None -> (None, None, None) in
  [ otok hex_of_str a.name; otok hex_of_str sg; otok hex_of_str k; otok hex_of_str v; otok hex_of_str a.user; otok hex_of_str a.pass ]

let case_line (c : case) : string =
  match c with
  | CEnc s -> "enc " ^ hex_of_str s
  | CAuth a -> String.concat " " ("auth" :: auth_tokens a @ [ otok hex_of_str a.logical ])
  | CConn (None, toks) -> String.concat " " ("conn" :: "NOAUTH" :: toks)
  | CConn (Some a, toks) -> String.concat " " ("conn" :: "AUTH" :: auth_tokens a @ toks)
  | CDef toks -> String.concat " " ("def" :: toks)

let auth_desc (a : auth) : string =
  Printf.sprintf "authorizer=%s signed=%s username=%s password=%s" (oprint a.name)
    (match a.signed with None -> "no" | Some (s, k, v) -> Printf.sprintf "(sig \"%s\", key \"%s\", value \"%s\")" (printable s) (printable k) (printable v))
    (oprint a.user) (oprint a.pass)

let model_auth (a : auth) : auth_input =
  { a_name = Option.map bytes_of_str a.name;
    a_signed = Option.map (fun (s, k, v) -> ((bytes_of_str s, bytes_of_str k), bytes_of_str v)) a.signed;
    a_user = Option.map bytes_of_str a.user; a_pass = Option.map bytes_of_str a.pass }

let parse_auth_tokens (toks : string list) (logical : string option) : auth =
  match toks with
  | [n; s; k; v; u; p] ->
    let g = ptok str_of_hex in
    { name = g n; signed = (match g s, g k, g v with Some s, Some k, Some v -> Some (s, k, v) | _ -> None); user = g u; pass = g p; logical }
  | _ -> failwith "auth tokens"

(* the logical signature of a configured one, when it is inside the property's domain *)
let is_b64 s = let ok = ref true in String.iter (fun c -> if not ((c >= '0' && c <= '9') || (c >= 'A' && c <= 'Z') || (c >= 'a' && c <= 'z') || c = '+' || c = '/' || c = '=') then ok := false) s; !ok
let infer_logical (sg : string) : string option =
  if is_b64 sg then Some sg
  else
    let d = ref_decode sg in
    if is_b64 d && str_of_bytes (enc (bytes_of_str d)) = sg then Some d else None

(* ------------------------------------------------------------------ generators *)
let unreserved_atoms = [| "a"; "b"; "z"; "A"; "Q"; "0"; "7"; "-"; "."; "_"; "~"; "tok"; "Auth"; "v1" |]
let safe_extra_atoms = [| "+"; "/"; "?"; ":"; "@"; "!"; "$"; "'"; "("; ")"; "*"; ","; ";" |]
let reserved_atoms = [| "&"; "="; "#"; "%"; " "; "%2"; "%zz"; "\""; "<"; "\x01"; "\xc3\xa9"; "\xe2\x82\xac"; "&x=1"; "=="; "\x7f"; "[" ; "|" |]
let escape_atoms = [| "%41"; "%2B"; "%20"; "%3d"; "%26"; "%C3%A9" |]
let b64_chars = "ABCDEFGHIJKLMNOPQRSTUVWXYZabcdefghijklmnopqrstuvwxyz0123456789+/"

let gen_from (r : rng) (pools : (int * string array) list) (maxlen : int) : string =
  let n = rand_int r (maxlen + 1) in
  let total = L.fold_left (fun a (w, _) -> a + w) 0 pools in
  String.concat "" (L.init n (fun _ ->
      let x = rand_int r total in
      let rec sel x = function
        | [(_, p)] -> pick_arr r p
        | (w, p) :: tl -> if x < w then pick_arr r p else sel (x - w) tl
        | [] -> "" in
      sel x pools))

let gen_safe r = gen_from r [ (8, unreserved_atoms); (2, safe_extra_atoms) ] 8
let gen_safe_nonempty r = let s = gen_safe r in if s = "" then "k" else s
let gen_encoded r = gen_from r [ (6, unreserved_atoms); (1, safe_extra_atoms); (3, escape_atoms) ] 8
let gen_unsafe r =
  (* at least one reserved atom *)
  let a = gen_from r [ (6, unreserved_atoms); (1, safe_extra_atoms); (3, reserved_atoms); (1, escape_atoms) ] 5 in
  let b = gen_from r [ (6, unreserved_atoms); (3, reserved_atoms) ] 3 in
  a ^ pick_arr r reserved_atoms ^ b
let gen_any r = gen_from r [ (5, unreserved_atoms); (2, safe_extra_atoms); (3, reserved_atoms); (2, escape_atoms) ] 10

let gen_b64 (r : rng) (special : bool) : string =
  let n = 4 * (1 + rand_int r 6) in
  let pad = if special then rand_int r 3 else 0 in
  String.init n (fun i ->
      if i >= n - pad then '='
      else if special && chance r 25 then (if rand_bool r then '+' else '/')
      else b64_chars.[rand_int r 62])

(* signature: (configured text, logical raw text if inside the property's domain, label) *)
let gen_sig (r : rng) : string * string option * string =
  let x = rand_int r 100 in
  if x < 40 then let s = gen_b64 r true in (s, Some s, "sig-raw-base64")
  else if x < 50 then let s = gen_b64 r false in (s, Some s, "sig-raw-plain")
  else if x < 85 then let s = gen_b64 r (x < 80) in (str_of_bytes (enc (bytes_of_str s)), Some s, "sig-pre-encoded")
  else if x < 88 then ("", Some "", "sig-empty")
  else
    let s = pick r [ "%2"; "a%2Bb+c"; "%"; "ab%2"; "a%2bb"; "%2B%2F%3D+"; "a%zz"; gen_b64 r true ^ "%"; "%" ^ gen_b64 r true; "a b"; "\xc3\xa9"; "a&b=c" ] in
    (s, infer_logical s, "sig-ambiguous")

let gen_user (r : rng) : string option =
  let x = rand_int r 100 in
  if x < 20 then None
  else if x < 30 then Some ""
  else if x < 60 then Some (gen_safe r)
  else if x < 75 then Some (gen_safe r ^ "?" ^ gen_safe r)
  else if x < 85 then Some ("u?a=b&c=" ^ gen_safe r)
  else Some (gen_any r)

let gen_pass (r : rng) : string option =
  let x = rand_int r 100 in
  if x < 35 then None
  else if x < 45 then Some ""
  else Some (String.init (1 + rand_int r 12) (fun _ -> Char.chr (rand_int r 256)))

let gen_auth (r : rng) (dist : (string, int) Hashtbl.t) : auth =
  let profile = rand_int r 100 in
  let field kind =
    (* kind: `Name | `Key | `Value *)
    if profile < 35 then gen_safe r
    else if profile < 50 then (if kind = `Value then gen_safe r else gen_encoded r)
    else if profile < 72 then (if kind = `Value then gen_unsafe r else if chance r 70 then gen_safe r else gen_encoded r)
    else if profile < 82 then (if kind = `Value then gen_safe r else gen_unsafe r)
    else gen_any r in
  bump dist (if profile < 35 then "auth-profile-safe" else if profile < 50 then "auth-profile-encoded-name-key"
             else if profile < 72 then "auth-profile-unsafe-value" else if profile < 82 then "auth-profile-unsafe-name-key" else "auth-profile-any");
  let name = if chance r 20 then None else Some (field `Name) in
  let (signed, logical) =
    if chance r 15 then (bump dist "unsigned"; (None, Some ""))
    else begin
      let (sg, lg, label) = gen_sig r in
      bump dist label;
      let key = let k = field `Key in if k = "" && chance r 80 then "k" else k in
      (Some (sg, key, field `Value), lg)
    end in
  { name; signed; user = gen_user r; pass = gen_pass r; logical }

let u16_pool = [| "0"; "1"; "60"; "1200"; "65535" |]
let u32_pool = [| "0"; "1"; "3600"; "65536"; "4294967295" |]
let gen_up (r : rng) : string =
  let n = rand_int r 3 in
  "[" ^ String.concat "," (L.init n (fun _ -> hex_of_str (gen_any r) ^ ":" ^ hex_of_str (gen_any r))) ^ "]"
let tog r f = if rand_bool r then "-" else f ()
let gen_will (r : rng) : string list =
  if chance r 60 then ["NOWILL"]
  else
    [ "WILL"; "0"; hex_of_str ("will/" ^ gen_safe r); string_of_int (rand_int r 3); "0"; (if rand_bool r then "1" else "0");
      tog r (fun () -> hex_of_str (String.init (rand_int r 6) (fun _ -> Char.chr (rand_int r 256))));
      tog r (fun () -> string_of_int (rand_int r 2)); tog r (fun () -> pick_arr r u32_pool); "-";
      tog r (fun () -> hex_of_str (gen_safe r)); tog r (fun () -> hex_of_str (gen_any r)); "-";
      tog r (fun () -> hex_of_str (gen_safe r)); tog r (fun () -> gen_up r) ]

let gen_client_id (r : rng) (dist : (string, int) Hashtbl.t) : string =
  let x = rand_int r 100 in
  if x < 35 then (bump dist "client-id-absent"; "-")
  else if x < 55 then (bump dist "client-id-empty"; "x")
  else (bump dist "client-id-present"; hex_of_str (if chance r 50 then gen_safe_nonempty r else let s = gen_any r in if s = "" then " " else s))

let gen_connect_tokens (r : rng) (dist : (string, int) Hashtbl.t) : string list =
  [ tog r (fun () -> pick_arr r u16_pool); string_of_int (rand_int r 3); gen_client_id r dist;
    tog r (fun () -> hex_of_str (gen_any r)); tog r (fun () -> hex_of_str (String.init (rand_int r 6) (fun _ -> Char.chr (rand_int r 256))));
    tog r (fun () -> pick_arr r u32_pool); tog r (fun () -> string_of_int (rand_int r 2)); tog r (fun () -> string_of_int (rand_int r 2));
    tog r (fun () -> pick_arr r u16_pool); tog r (fun () -> pick_arr r u16_pool); tog r (fun () -> pick_arr r u32_pool);
    tog r (fun () -> pick_arr r u32_pool); tog r (fun () -> gen_up r) ] @ gen_will r

let ns_pool = [| "0"; "1"; "999999999"; "1000000000"; "10000000000"; "30000000000"; "120000000000"; "18446744073709551615999999999" |]
let gen_def_tokens (r : rng) : string list =
  [ string_of_int (rand_int r 4); pick_arr r ns_pool; pick_arr r ns_pool; pick r [ "default"; "default"; "null"; "manual"; "lru:5"; "lru:0" ];
    string_of_int (rand_int r 2); pick_arr r ns_pool; pick_arr r ns_pool; pick_arr r ns_pool;
    (if rand_bool r then "5" else "311"); pick r [ "-"; "-"; "0"; "1" ]; pick r [ "-"; "-"; "0"; "2"; "7"; "4294967295" ] ]

let gen_case (r : rng) (dist : (string, int) Hashtbl.t) : case =
  let x = rand_int r 100 in
  if x < 10 then CEnc (String.init (rand_int r 12) (fun _ -> if chance r 50 then Char.chr (rand_int r 256) else b64_chars.[rand_int r 64]))
  else if x < 55 then CAuth (gen_auth r dist)
  else if x < 80 then CConn ((if chance r 55 then Some (gen_auth r dist) else None), gen_connect_tokens r dist)
  else CDef (gen_def_tokens r)

(* ------------------------------------------------------------------ model <-> tokens *)
let model_connect_of_tokens (toks : string list) : connect_options =
  match toks with
  | ka :: rj :: cid :: un :: pw :: sei :: rri :: rpi :: rm :: tam :: mp :: wd :: up :: will ->
    { co_keep_alive = Ptext.po Ptext.pn ka;
      co_rejoin = (match rj with "0" -> PostSuccess | "1" -> Always | _ -> Never);
      co_client_id = Ptext.po Ptext.ph cid; co_username = Ptext.po Ptext.ph un; co_password = Ptext.po Ptext.ph pw;
      co_sei = Ptext.po Ptext.pn sei; co_rri = Ptext.po Ptext.pb rri; co_rpi = Ptext.po Ptext.pb rpi;
      co_receive_max = Ptext.po Ptext.pn rm; co_tam = Ptext.po Ptext.pn tam; co_max_packet = Ptext.po Ptext.pn mp;
      co_will_delay = Ptext.po Ptext.pn wd;
      co_will = (match will with "WILL" :: rest -> Some (fst (Ptext.take_publish rest)) | _ -> None);
      co_up = Ptext.po Ptext.pup up }
  | _ -> failwith "connect option tokens"

let model_connect_to_tokens (c : connect_options) : string list =
  let open Ptext in
  [ o n c.co_keep_alive; (match c.co_rejoin with PostSuccess -> "0" | Always -> "1" | Never -> "2");
    o hx c.co_client_id; o hx c.co_username; o hx c.co_password; o n c.co_sei; o b c.co_rri; o b c.co_rpi;
    o n c.co_receive_max; o n c.co_tam; o n c.co_max_packet; o n c.co_will_delay; o up_list c.co_up;
    (match c.co_will with None -> "NOWILL" | Some w -> "WILL " ^ publish_fields w) ]

let model_client_of_tokens (toks : string list) : client_options =
  match toks with
  | [off; ct; pt; res; jit; base; mx; stab; proto; drain; retries] ->
    { cl_offline = (match off with "0" -> PreserveAll | "1" -> PreserveAcknowledged | "2" -> PreserveQos1PlusPublishes | _ -> PreserveNothing);
      cl_connect_timeout = n_of_string ct; cl_ping_timeout = n_of_string pt;
      cl_resolver = (if res = "default" || res = "-" then None else Some (n_of_int 1));
      cl_jitter = (if jit = "0" then JitterNone else JitterUniform);
      cl_base = n_of_string base; cl_max = n_of_string mx; cl_stability = n_of_string stab;
      cl_protocol = (if proto = "5" then V5 else V311);
      cl_drain = (match drain with "-" -> None | "0" -> Some DrainNone | _ -> Some OneAtATime);
      cl_retries = Ptext.po Ptext.pn retries }
  | _ -> failwith "client option tokens"

let model_client_to_tokens (o : client_options) : string list =
  [ (match o.cl_offline with PreserveAll -> "0" | PreserveAcknowledged -> "1" | PreserveQos1PlusPublishes -> "2" | PreserveNothing -> "3");
    string_of_n o.cl_connect_timeout; string_of_n o.cl_ping_timeout; (match o.cl_resolver with None -> "-" | Some _ -> "same");
    (match o.cl_jitter with JitterNone -> "0" | JitterUniform -> "1"); string_of_n o.cl_base; string_of_n o.cl_max; string_of_n o.cl_stability;
    (match o.cl_protocol with V5 -> "5" | V311 -> "311");
    (match o.cl_drain with None -> "-" | Some DrainNone -> "0" | Some OneAtATime -> "1"); Ptext.o string_of_n o.cl_retries ]

(* ------------------------------------------------------------------ running one case *)
type verdict = { fail : (string * string * string) option;  (* kind, detail, signature *)
                 events : int; nontrivial : bool; labels : string list }

let uuid_shape (s : string) : bool =
  String.length s = 36 &&
  (let ok = ref true in
   String.iteri (fun i c -> if i = 8 || i = 13 || i = 18 || i = 23 then (if c <> '-' then ok := false)
                  else if hexv c = None || (c >= 'A' && c <= 'F') then ok := false) s;
   !ok) && s.[14] = '4'

let seen_uuids : (string, unit) Hashtbl.t = Hashtbl.create 256

(* property monitor for the custom-auth username, on the implementation's output *)
let monitor_auth_username (a : auth) (lg : string) (username : string) : (bool * string) =
  let prefix = (match a.user with Some u -> u | None -> "") ^ "?" in
  if not (starts_with prefix username) then (false, "username does not start with <user>?")
  else
    let q = String.sub username (String.length prefix) (String.length username - String.length prefix) in
    let expected =
      (match a.name with Some n -> [ (name_param, ref_decode n) ] | None -> []) @
      (match a.signed with Some (_, k, v) -> [ (sig_param, lg); (ref_decode k, v) ] | None -> []) in
    let got = ref_parse_query q in
    if not (ref_query_wf q) then (false, Printf.sprintf "query \"%s\" is not a well-formed query string" (printable q))
    else if got <> expected then
      (false, Printf.sprintf "query \"%s\" decodes to [%s], configured [%s]" (printable q)
         (String.concat "; " (L.map (fun (k, v) -> printable k ^ "=" ^ printable v) got))
         (String.concat "; " (L.map (fun (k, v) -> printable k ^ "=" ^ printable v) expected)))
    else (true, "")

let run_auth (h : harness) (a : auth) : verdict =
  let desc = auth_desc a in
  let reply = ask h (String.concat " " ("AWSAUTH" :: auth_tokens a)) in
  let ma = model_auth a in
  let m_user = str_of_bytes (build_username ma) and m_params = L.map str_of_bytes (build_query_params ma) in
  let labels = ref [] in
  let fail =
    match split_ws reply with
    | ["ok"; u; p; params] ->
      let i_user = str_of_hex u and i_pass = ptok str_of_hex p in
      let i_params = L.map str_of_hex (Ptext.list_items params) in
      let tie_failure () =
        if i_user <> m_user || i_params <> m_params || i_pass <> a.pass then
          Some ("tie", Printf.sprintf "%s :: impl username=\"%s\" params=[%s] password=%s; model username=\"%s\" params=[%s] password=%s" desc
                  (printable i_user) (String.concat "," (L.map printable i_params)) (oprint i_pass)
                  (printable m_user) (String.concat "," (L.map printable m_params)) (oprint a.pass), "tie-auth")
        else None in
      (* the property's domain: signature raw base64 or its encoding; name and key URI-encoded as documented *)
      let pre_ok = (match a.name with Some n -> ref_uri_encoded n | None -> true) &&
                   (match a.signed with Some (_, k, _) -> ref_uri_encoded k | None -> true) in
      (match a.logical with
       | None -> labels := "outside-domain-signature" :: !labels; tie_failure ()
       | Some _ when not pre_ok -> labels := "outside-domain-name-or-key-not-uri-encoded" :: !labels; tie_failure ()
       | Some lg ->
         (* the monitor runs on the IMPLEMENTATION's output first; the model's own output tells a known-class input
            (monitor fails on both, outputs equal) from a new failure (monitor passes on the model's output) *)
         let (ok, why) = monitor_auth_username a lg i_user in
         let (model_ok, _) = monitor_auth_username a lg m_user in
         let coq_ok = monitor_username ma (bytes_of_str lg) (bytes_of_str i_user) in
         let value_safe = (match a.signed with Some (_, _, v) -> ref_safe v | None -> true) in
         if (match a.user with Some u -> String.contains u '?' | None -> false) then labels := "username-contains-question-mark" :: !labels;
         if i_pass <> a.pass then
           Some ("property", Printf.sprintf "%s :: custom-auth password is %s" desc (oprint i_pass), "C20-custom-auth-password")
         else if ok <> coq_ok then
           Some ("tie", Printf.sprintf "%s :: the OCaml monitor says %b, the extracted Coq monitor says %b on username \"%s\"" desc ok coq_ok (printable i_user), "tie-monitors")
         else if (not ok) && model_ok then
           Some ("property", Printf.sprintf "%s :: CONNECT username \"%s\": %s" desc (printable i_user) why, "C20-query")
         else match tie_failure () with
           | Some f -> Some f
           | None ->
             if ok then (labels := (if value_safe then "monitored-ok" else "monitored-ok-unsafe-value") :: !labels; None)
             else if not value_safe then
               (labels := "d20-class" :: !labels;
                Some ("property", Printf.sprintf "D20 token value inserted raw: %s :: CONNECT username \"%s\": %s" desc (printable i_user) why, "D20 raw token value"))
             else Some ("property", Printf.sprintf "%s :: CONNECT username \"%s\": %s" desc (printable i_user) why, "C20-query"))
    | _ -> Some ("tie", desc ^ " :: AWSAUTH -> " ^ reply, "tie-auth-reply") in
  { fail; events = 1; nontrivial = (a.signed <> None || a.name <> None); labels = !labels }

let run_conn (h : harness) (a : auth option) (toks : string list) : verdict =
  let desc = Printf.sprintf "connect options [%s] %s" (String.concat " " toks) (match a with None -> "no custom auth" | Some a -> auth_desc a) in
  let cmd = match a with
    | None -> String.concat " " ("AWSCONN" :: "NOAUTH" :: toks)
    | Some a -> String.concat " " ("AWSCONN" :: "AUTH" :: auth_tokens a @ toks) in
  let reply = ask h cmd in
  let labels = ref [] in
  let events = ref 1 in
  let fail =
    match split_ws reply with
    | "ok" :: out when L.length out >= 14 ->
      let inp = Array.of_list toks and outp = Array.of_list out in
      let user_cid = ptok str_of_hex inp.(2) and final_cid = ptok str_of_hex outp.(2) in
      let generated = (match user_cid with None | Some "" -> true | Some _ -> false) in
      (* --- property monitors on the implementation's output --- *)
      let mon =
        (match final_cid with
         | None | Some "" -> Some ("D19 empty client id: final client id is " ^ oprint final_cid, "D19 empty client id")
         | Some c ->
           if not generated && Some c <> user_cid then Some ("the user's client id " ^ oprint user_cid ^ " was replaced by " ^ oprint final_cid, "C20-client-id-replaced")
           else if generated && not (uuid_shape c) then Some ("generated client id \"" ^ printable c ^ "\" is not a version-4 UUID", "C20-client-id-shape")
           else if generated && Hashtbl.mem seen_uuids c then Some ("generated client id \"" ^ c ^ "\" is not fresh", "C20-client-id-not-fresh")
           else (if generated then Hashtbl.replace seen_uuids c (); None)) in
      let mon = match mon with Some _ -> mon | None ->
        (* every other option unchanged, token by token *)
        let bad = ref None in
        Array.iteri (fun i t -> if i <> 2 && i <> 3 && i <> 4 && !bad = None then
                        (if i >= Array.length outp || outp.(i) <> t then bad := Some i)) inp;
        if Array.length inp <> Array.length outp && !bad = None then bad := Some (Array.length inp);
        (match !bad with
         | Some i -> Some (Printf.sprintf "connect option token #%d changed: user %s, final %s" i (if i < Array.length inp then inp.(i) else "(none)")
                             (if i < Array.length outp then outp.(i) else "(none)"), "C20-connect-option-changed")
         | None ->
           match a with
           | None -> if outp.(3) <> inp.(3) || outp.(4) <> inp.(4) then Some ("username/password changed without custom auth", "C20-connect-option-changed") else None
           | Some a ->
             incr events;
             (match split_ws (ask h (String.concat " " ("AWSAUTH" :: auth_tokens a))) with
              | ["ok"; u; p; _] ->
                if outp.(3) <> u then Some ("CONNECT username is not the custom-auth username", "C20-custom-auth-username")
                else if outp.(4) <> (if p = "-" then inp.(4) else p) then Some ("CONNECT password is neither the custom-auth password nor the user's", "C20-custom-auth-password")
                else None
              | _ -> None)) in
      labels := (if generated then "client-id-generated" else "client-id-kept") :: !labels;
      (* --- tie: the model with the generator oracle instantiated by the implementation's value --- *)
      let uuid = (match final_cid with Some c when generated -> c | _ -> "00000000-0000-4000-8000-000000000000") in
      let m = final_connect_options (bytes_of_str uuid) (Option.map (fun a -> build_auth (model_auth a)) a) (model_connect_of_tokens toks) in
      let m_text = String.concat " " (model_connect_to_tokens m) in
      let i_text = String.concat " " out in
      let coq_mon = monitor_client_id (Option.map bytes_of_str user_cid) (Option.map bytes_of_str final_cid) in
      (match mon with
       | Some (why, sg) -> Some ("property", Printf.sprintf "%s%s :: %s :: final [%s]" (if starts_with "D19" sg then "D19 empty client id kept: " else "") desc why i_text, sg)
       | None ->
         if not coq_mon then Some ("tie", desc ^ " :: the extracted client-id monitor rejects final [" ^ i_text ^ "]", "tie-monitors")
         else if m_text <> i_text then Some ("tie", Printf.sprintf "%s :: impl [%s] model [%s]" desc i_text m_text, "tie-conn")
         else None)
    | _ -> Some ("tie", desc ^ " :: AWSCONN -> " ^ reply, "tie-conn-reply") in
  { fail; events = !events; nontrivial = L.exists (fun t -> t <> "-" && t <> "NOWILL" && t <> "0") toks || a <> None; labels = !labels }

let run_def (h : harness) (toks : string list) : verdict =
  let desc = "client options [" ^ String.concat " " toks ^ "]" in
  let reply = ask h (String.concat " " ("AWSDEF" :: toks)) in
  let labels = ref [] in
  let fail =
    match split_ws reply with
    | "ok" :: in_factory :: out when L.length out = 11 && L.length toks = 11 ->
      let inp = Array.of_list toks and outp = Array.of_list out in
      outp.(3) <- (if outp.(3) = "-" then "-" else if outp.(3) = in_factory then "same" else "different");
      let in_res = if inp.(3) = "default" then "-" else "same" in
      let applies = inp.(8) = "311" && inp.(9) = "-" && inp.(10) = "-" in
      labels := Printf.sprintf "defaults-%s-proto%s-drain%s-retries%s" (if applies then "applied" else "not-applied") inp.(8)
          (if inp.(9) = "-" then "unset" else "set") (if inp.(10) = "-" then "unset" else "set") :: !labels;
      (* property monitor *)
      let bad = ref None in
      for i = 0 to 8 do
        let expect = if i = 3 then in_res else inp.(i) in
        if !bad = None && outp.(i) <> expect then bad := Some (Printf.sprintf "client option token #%d changed: user %s, final %s" i expect outp.(i), "C20-client-option-changed")
      done;
      if !bad = None then begin
        if applies && (outp.(9) <> "1" || outp.(10) <> "2") then bad := Some ("3.1.1 client with neither option set did not get OneAtATime / 2: drain " ^ outp.(9) ^ " retries " ^ outp.(10), "C20-defaults-missing")
        else if not applies && (outp.(9) <> inp.(9) || outp.(10) <> inp.(10)) then
          bad := Some (Printf.sprintf "drain policy / retry limit changed although the defaults do not apply: drain %s -> %s, retries %s -> %s" inp.(9) outp.(9) inp.(10) outp.(10), "C20-defaults-overwrite")
      end;
      let m_text = String.concat " " (model_client_to_tokens (apply_aws_defaults (model_client_of_tokens toks))) in
      let i_text = String.concat " " (Array.to_list outp) in
      (match !bad with
       | Some (why, sg) -> Some ("property", desc ^ " :: " ^ why ^ " :: final [" ^ i_text ^ "]", sg)
       | None -> if m_text <> i_text then Some ("tie", Printf.sprintf "%s :: impl [%s] model [%s]" desc i_text m_text, "tie-def") else None)
    | _ -> Some ("tie", desc ^ " :: AWSDEF -> " ^ reply, "tie-def-reply") in
  { fail; events = 1; nontrivial = true; labels = !labels }

let run_enc (h : harness) (s : string) : verdict =
  let desc = "encode \"" ^ printable s ^ "\"" in
  let reply = ask h ("AWSENC " ^ hex_of_str s) in
  let m = str_of_bytes (enc (bytes_of_str s)) in
  let fail =
    match split_ws reply with
    | ["ok"; bin; st] ->
      let i = str_of_hex bin in
      if st <> "-" && st <> bin then Some ("tie", desc ^ " :: urlencoding::encode and encode_binary differ", "tie-enc")
      else if ref_decode i <> s then Some ("property", desc ^ " :: implementation's encoding \"" ^ printable i ^ "\" does not decode back", "C20-encode-not-invertible")
      else if i <> m then Some ("tie", Printf.sprintf "%s :: impl \"%s\" model \"%s\"" desc (printable i) (printable m), "tie-enc")
      else if str_of_bytes (pct_decode (bytes_of_str i)) <> s then Some ("tie", desc ^ " :: extracted pct_decode does not invert", "tie-enc")
      else None
    | _ -> Some ("tie", desc ^ " :: AWSENC -> " ^ reply, "tie-enc-reply") in
  { fail; events = 1; nontrivial = s <> ""; labels = [] }

(* exhaustive: the compiled crate's encoding of every single byte against the model's table *)
let run_table (h : harness) : (string * string * string) list * int =
  let reply = ask h "AWSENCTABLE" in
  match split_ws reply with
  | ["ok"; items] ->
    let impl = L.map str_of_hex (String.split_on_char ',' items) in
    let model = L.map str_of_bytes enc_table in
    if L.length impl <> 256 || L.length model <> 256 then ([ ("tie", "AWSENCTABLE: wrong table size", "tie-table") ], 1)
    else begin
      let fails = ref [] in
      L.iteri (fun b (i, m) ->
          if ref_decode i <> String.make 1 (Char.chr b) then
            fails := ("property", Printf.sprintf "byte %d is encoded as \"%s\", which does not decode back" b (printable i), "C20-encode-not-invertible") :: !fails
          else if i <> m then fails := ("tie", Printf.sprintf "byte %d: impl \"%s\" model \"%s\"" b (printable i) (printable m), "tie-table") :: !fails)
        (L.combine impl model);
      (L.rev !fails, 256)
    end
  | _ -> ([ ("tie", "AWSENCTABLE -> " ^ reply, "tie-table") ], 1)

let run_defaults (h : harness) : (string * string * string) list =
  let co = ask h "AWSCODEFAULT" and cl = ask h "AWSCLDEFAULT" in
  let m_co = "ok " ^ String.concat " " (model_connect_to_tokens default_connect_options) in
  let m_cl = "ok " ^ String.concat " " (model_client_to_tokens default_client_options) in
  (if co <> m_co then [ ("tie", Printf.sprintf "ConnectOptions::builder().build(): impl [%s] model [%s]" co m_co, "tie-defaults") ] else []) @
  (if cl <> m_cl then [ ("tie", Printf.sprintf "MqttClientOptions::builder().build(): impl [%s] model [%s]" cl m_cl, "tie-defaults") ] else [])

let run_case (h : harness) (c : case) : verdict =
  match c with
  | CEnc s -> run_enc h s
  | CAuth a -> run_auth h a
  | CConn (a, toks) -> run_conn h a toks
  | CDef toks -> run_def h toks

(* ------------------------------------------------------------------ corpus / replay *)
let parse_case_line (l : string) : case option =
  match split_ws l with
  | "enc" :: [x] -> Some (CEnc (str_of_hex x))
  | ["auth"; n; s; k; v; u; p; lg] -> Some (CAuth (parse_auth_tokens [n; s; k; v; u; p] (ptok str_of_hex lg)))
  | "conn" :: "NOAUTH" :: toks -> Some (CConn (None, toks))
  | "conn" :: "AUTH" :: n :: s :: k :: v :: u :: p :: toks ->
    let a = parse_auth_tokens [n; s; k; v; u; p] None in
    Some (CConn (Some { a with logical = (match a.signed with Some (sg, _, _) -> infer_logical sg | None -> Some "") }, toks))
  | "def" :: toks when L.length toks = 11 -> Some (CDef toks)
  | _ -> None

let find_sub (s : string) (sub : string) : int option =
  let n = String.length s and m = String.length sub in
  let rec go i = if i + m > n then None else if String.sub s i m = sub then Some i else go (i + 1) in
  go 0

let read_cases (file : string) : case list =
  let ic = open_in file in
  let marker = "\"case\": \"" in
  let rec go acc = match input_line ic with
    | l ->
      let l = String.trim l in
      let l =
        (* a replay written by ./check: the case line is the value of the "case" field *)
        (match find_sub l marker with
         | Some i ->
           let rest = String.sub l (i + String.length marker) (String.length l - i - String.length marker) in
           (match String.index_opt rest '"' with Some j -> String.sub rest 0 j | None -> rest)
         | None -> l) in
      if l = "" || l.[0] = '#' then go acc
      else (match (try parse_case_line l with _ -> None) with Some c -> go (c :: acc) | None -> go acc)
    | exception End_of_file -> close_in ic; L.rev acc in
  go []

let main (seed : int) (count : int) (harness_path : string) (corpus : string list) =
  let r = rng_make seed in
  let h = harness_start harness_path in
  let dist = Hashtbl.create 64 in
  let seen = Hashtbl.create 1024 in
  let fails = ref [] and samples = ref [] and total_events = ref 0 and nontrivial = ref 0 in
  let d20_listed = ref 0 in
  let add_fail ?(case = "") (k, m, sg) =
    if starts_with "D20" sg && !d20_listed >= 1 then bump dist "d20-failures-not-listed"
    else begin
      if starts_with "D20" sg then incr d20_listed;
      fails := (k, m, sg, case) :: !fails
    end in
  (* exhaustive table and library defaults: on every run *)
  let (tf, tev) = run_table h in
  L.iter add_fail tf; total_events := !total_events + tev;
  L.iter add_fail (run_defaults h); total_events := !total_events + 2;
  let corpus_cases = L.concat_map read_cases corpus in
  let ncorpus = L.length corpus_cases in
  let corpus_left = ref corpus_cases in
  for i = 1 to count + ncorpus do
    let c = (match !corpus_left with x :: tl -> corpus_left := tl; bump dist "corpus-case"; x | [] -> gen_case r dist) in
    bump dist (match c with CEnc _ -> "kind-encode" | CAuth _ -> "kind-custom-auth" | CConn (None, _) -> "kind-connect-options" | CConn (Some _, _) -> "kind-connect-options+custom-auth" | CDef _ -> "kind-client-options");
    let v = run_case h c in
    total_events := !total_events + v.events;
    L.iter (bump dist) v.labels;
    let line = case_line c in
    if not (Hashtbl.mem seen line) then begin
      Hashtbl.add seen line ();
      if v.nontrivial then incr nontrivial
    end;
    if i <= 4 then samples := (match c with
        | CAuth a -> "custom auth: " ^ auth_desc a
        | CConn (None, t) -> "connect options: " ^ String.concat " " t
        | CConn (Some a, t) -> "connect options: " ^ String.concat " " t ^ " with custom auth: " ^ auth_desc a
        | CDef t -> "client options: " ^ String.concat " " t
        | CEnc e -> "encode \"" ^ printable e ^ "\"") :: !samples;
    (match v.fail with Some f -> add_fail ~case:line f | None -> ())
  done;
  harness_stop h;
  print_endline (jobj [
    "cases", string_of_int (count + ncorpus); "corpus_cases", string_of_int ncorpus; "events", string_of_int !total_events;
    "distinct_nontrivial", string_of_int !nontrivial;
    "x_encode_table_exhaustive", "true";
    "distribution", jtable dist;
    "samples", jlist (L.map jstr (L.rev !samples));
    "failures", jlist (L.map (fun (k, m, sg, case) -> jobj ["kind", jstr k; "detail", jstr m; "signature", jstr sg; "case", jstr case]) (L.rev !fails)) ])
