module L = Stdlib.List
module String = Stdlib.String
(* Shared helpers of the hand-written driver: PRNG, conversions between OCaml ints / decimal
   strings and the extracted Coq numbers, hex, harness subprocess. Trusted for the tie only. *)

(* ---- splitmix64 PRNG: every random choice derives from one state ---- *)
type rng = { mutable s : int64 }
let rng_make (seed : int) : rng = { s = Int64.of_int seed }
let next64 (r : rng) : int64 =
  r.s <- Int64.add r.s 0x9E3779B97F4A7C15L;
  let z = r.s in
  let z = Int64.mul (Int64.logxor z (Int64.shift_right_logical z 30)) 0xBF58476D1CE4E5B9L in
  let z = Int64.mul (Int64.logxor z (Int64.shift_right_logical z 27)) 0x94D049BB133111EBL in
  Int64.logxor z (Int64.shift_right_logical z 31)
let rand_int (r : rng) (n : int) : int =
  if n <= 0 then 0 else Int64.to_int (Int64.unsigned_rem (next64 r) (Int64.of_int n))
let rand_bool r = rand_int r 2 = 0
let chance r pct = rand_int r 100 < pct
let pick r (l : 'a list) : 'a = L.nth l (rand_int r (L.length l))
let pick_arr r (a : 'a array) : 'a = a.(rand_int r (Array.length a))

(* ---- Coq numbers <-> decimal strings (arbitrary size, via simple bignum on int lists) ---- *)
open BinNums

(* positive -> list of bits, least significant first *)
let rec pos_bits (p : positive) : bool list =
  match p with Coq_xH -> [true] | Coq_xO q -> false :: pos_bits q | Coq_xI q -> true :: pos_bits q

(* decimal big numbers as int arrays base 10^9, little endian; only what we need *)
let big_base = 1_000_000_000
let big_of_int (n : int) : int list =
  let rec go n = if n = 0 then [] else (n mod big_base) :: go (n / big_base) in go n
let rec big_norm l = match L.rev l with 0 :: r -> big_norm (L.rev r) | _ -> l
let big_double_plus (l : int list) (b : int) : int list =
  let rec go l c = match l with
    | [] -> if c = 0 then [] else [c]
    | x :: r -> let v = 2 * x + c in (v mod big_base) :: go r (v / big_base) in
  go l b
let big_to_string (l : int list) : string =
  match L.rev (big_norm l) with
  | [] -> "0"
  | hd :: tl -> String.concat "" (string_of_int hd :: L.map (Printf.sprintf "%09d") tl)
let big_divmod2 (l : int list) : int list * int =
  (* l little endian; divide by 2 *)
  let rl = L.rev l in
  let rec go rl carry acc = match rl with
    | [] -> (acc, carry)
    | x :: r -> let v = carry * big_base + x in go r (v mod 2) ((v / 2) :: acc) in
  let (q, rem) = go rl 0 [] in (big_norm q, rem)
let big_of_string (s : string) : int list =
  (* parse decimal string into base 1e9 little endian *)
  let n = String.length s in
  let rec go hi acc =
    if hi <= 0 then acc
    else let lo = max 0 (hi - 9) in
      go lo (int_of_string (String.sub s lo (hi - lo)) :: acc) in
  big_norm (L.rev (go n []))

let string_of_pos (p : positive) : string =
  let bits = L.rev (pos_bits p) in (* most significant first *)
  big_to_string (L.fold_left (fun acc b -> big_double_plus acc (if b then 1 else 0)) [] bits)
let string_of_n (n : coq_N) : string = match n with N0 -> "0" | Npos p -> string_of_pos p

let rec pos_of_big (l : int list) : positive =
  (* l > 0 *)
  let (q, r) = big_divmod2 l in
  if q = [] then Coq_xH else if r = 1 then Coq_xI (pos_of_big q) else Coq_xO (pos_of_big q)
let n_of_string (s : string) : coq_N =
  let b = big_of_string s in if b = [] then N0 else Npos (pos_of_big b)

let rec pos_of_int (i : int) : positive =
  if i <= 1 then Coq_xH else if i land 1 = 1 then Coq_xI (pos_of_int (i lsr 1)) else Coq_xO (pos_of_int (i lsr 1))
let n_of_int (i : int) : coq_N = if i <= 0 then N0 else Npos (pos_of_int i)
let rec int_of_pos (p : positive) : int =
  match p with Coq_xH -> 1 | Coq_xO q -> 2 * int_of_pos q | Coq_xI q -> 2 * int_of_pos q + 1
let int_of_n (n : coq_N) : int = match n with N0 -> 0 | Npos p -> int_of_pos p

(* ---- bytes (list of N) <-> hex token x.. ---- *)
let hex_of_bytes (l : coq_N list) : string =
  let b = Buffer.create (1 + 2 * L.length l) in
  Buffer.add_char b 'x';
  L.iter (fun n -> Buffer.add_string b (Printf.sprintf "%02x" (int_of_n n))) l;
  Buffer.contents b
let bytes_of_hex (s : string) : coq_N list =
  let n = String.length s in
  if n = 0 || s.[0] <> 'x' then failwith ("bad hex token " ^ s);
  let rec go i acc = if i < 1 then acc else go (i - 2) (n_of_int (int_of_string ("0x" ^ String.sub s i 2)) :: acc) in
  go (n - 2) []
let bytes_of_string (s : string) : coq_N list =
  L.init (String.length s) (fun i -> n_of_int (Char.code s.[i]))

(* ---- harness subprocess ---- *)
type harness = { hin : in_channel; hout : out_channel }
let harness_start (path : string) : harness =
  let (hin, hout) = Unix.open_process path in { hin; hout }
let ask (h : harness) (cmd : string) : string =
  output_string h.hout cmd; output_char h.hout '\n'; flush h.hout;
  try input_line h.hin with End_of_file -> "EOF"
let harness_stop (h : harness) = ignore (Unix.close_process (h.hin, h.hout))

let split_ws (s : string) : string list =
  L.filter (fun x -> x <> "") (String.split_on_char ' ' s)

(* ---- JSON output helpers ---- *)
let json_escape (s : string) : string =
  let b = Buffer.create (String.length s + 8) in
  String.iter (fun c -> match c with
    | '"' -> Buffer.add_string b "\\\"" | '\\' -> Buffer.add_string b "\\\\"
    | '\n' -> Buffer.add_string b "\\n" | c when Char.code c < 32 -> Buffer.add_string b (Printf.sprintf "\\u%04x" (Char.code c))
    | c -> Buffer.add_char b c) s;
  Buffer.contents b
let jstr s = "\"" ^ json_escape s ^ "\""
let jlist (l : string list) = "[" ^ String.concat "," l ^ "]"
let jobj (l : (string * string) list) = "{" ^ String.concat "," (L.map (fun (k, v) -> jstr k ^ ":" ^ v) l) ^ "}"

(* frequency table *)
let bump (tbl : (string, int) Hashtbl.t) (k : string) =
  Hashtbl.replace tbl k (1 + (try Hashtbl.find tbl k with Not_found -> 0))
let jtable (tbl : (string, int) Hashtbl.t) : string =
  let l = Hashtbl.fold (fun k v acc -> (k, v) :: acc) tbl [] in
  let l = L.sort compare l in
  jobj (L.map (fun (k, v) -> (k, string_of_int v)) l)
