(* Area c14r — the REAL tokio / threaded clients honour the engine's timers in real time (harness command RUN of
   ext_client_real.rs: public client API, scripted in-memory transport, scripted broker).  The engine properties C08 / C14 /
   C18 state WHEN the engine must be serviced and what a service call at that time does; the drivers are the code that turns a
   reported service time into an actual call.  Three scenario families, each on both drivers, wall-clock, generous margins
   (a loaded machine must not raise an alarm: only lower bounds that real time cannot violate and upper bounds of seconds):
     ping     keep-alive 1 s, broker answers every PINGREQ, 3.5 s idle: at least two PINGREQs reach the transport
              (C14: never more than K seconds without a packet) and the connection stays up (a live peer is not timed out);
     pingdead keep-alive 1 s, broker never answers PINGREQ: the connection is failed (Disconnection) within 3 s
              (deadline = K + min(ping timeout, K/2) <= 1.5 s) and a new attempt follows;
     acktmo   QoS 1 publish with ack timeout T in 200..400 ms, broker never acknowledges: the result is AckTimeout, not before
              T, and it is delivered within the scenario (T + 1.5 s).
   Schedules are SAMPLED; this is a monitor on the implementation, not a proof. *)
open Util
module L = Stdlib.List
module String = Stdlib.String

type fail = { kind : string; detail : string; signature : string }

let field (reply : string) (k : string) : string =
  (* ok ev=[...] conns=[...] res=[...] attempts=n notes=[...] *)
  let key = k ^ "=[" in
  let n = String.length reply and m = String.length key in
  let rec find i = if i + m > n then None else if String.sub reply i m = key then Some (i + m) else find (i + 1) in
  match find 0 with
  | None -> ""
  | Some s -> (match String.index_from_opt reply s ']' with Some e -> String.sub reply s (e - s) | None -> "")

let count_sub (hay : string) (needle : string) : int =
  let n = String.length hay and m = String.length needle in
  let rec go i acc = if i + m > n then acc else if String.sub hay i m = needle then go (i + m) (acc + 1) else go (i + 1) acc in
  go 0 0

let items (s : string) : string list = if s = "" then [] else String.split_on_char ',' s

let check (family : string) (t_ms : int) (scenario : string) (reply : string) : fail list =
  let evs = items (field reply "ev") in
  let conns = String.split_on_char '|' (field reply "conns") in
  let res = items (field reply "res") in
  let mk sigx d = { kind = "property"; signature = sigx; detail = scenario ^ " -> " ^ reply ^ " :: " ^ d } in
  if String.length reply < 2 || String.sub reply 0 2 <> "ok" then [ { kind = "tie"; signature = "c14r-harness"; detail = scenario ^ " -> " ^ reply } ]
  else if count_sub (field reply "notes") "waitfail" > 0 || not (L.mem "Success" evs) then []     (* the connection was not established in time (loaded machine): inconclusive *)
  else match family with
    | "ping" ->
      let pings = L.fold_left (fun acc c -> max acc (count_sub c "c000")) 0 conns in
      (* a connection that dropped (a PINGRESP delayed beyond 500 ms by a loaded machine) makes the run inconclusive; "a live peer is
         not timed out" is judged on the engine (monitors 1403 / 1404), where time is virtual *)
      if L.exists (fun e -> String.length e >= 13 && String.sub e 0 13 = "Disconnection") evs then []
      else if pings < 2 then [ mk "C14:real:ping-missing" (Printf.sprintf "%d PINGREQ on the wire in 3.5 s of idle connection with keep-alive 1 s" pings) ] else []
    | "pingdead" ->
      if L.exists (fun e -> String.length e >= 13 && String.sub e 0 13 = "Disconnection") evs then []
      else [ mk "C14:real:no-keepalive-failure" "no PINGRESP ever arrived, yet the connection was not failed within 3 s (keep-alive 1 s)" ]
    | "acktmo" ->
      (match res with
       | [ r ] ->
         (match String.split_on_char '@' r with
          | [ "p0:err:AckTimeout"; ms ] ->
            let t = (try int_of_string ms with _ -> -1) in
            if t < t_ms - 5 then [ mk "C18:real:ack-timeout-early" (Printf.sprintf "AckTimeout after %d ms, ack timeout %d ms" t t_ms) ] else []
          | _ -> [ mk "C18:real:ack-timeout-missing" (Printf.sprintf "expected AckTimeout after %d ms, got %s" t_ms r) ])
       | _ -> [ mk "C18:real:ack-timeout-missing" "no result slot" ])
    | _ -> []

let gen r : string * int * string =
  let driver = if rand_bool r then "tokio" else "threaded" in
  match rand_int r 3 with
  | 0 -> ("ping", 0, Printf.sprintf "RUN %s 3000 ka=1 pto=%d start wait:Success:1 sleep:3500 ; conn=ok ack=ok end=stay ; conn=ok ack=ok end=stay" driver (pick r [ 300; 400; 1000 ]))
  | 1 -> ("pingdead", 0, Printf.sprintf "RUN %s 3000 ka=1 pto=%d start wait:Success:1 sleep:3000 ; conn=ok ack=ok quiet=ping end=stay ; conn=ok ack=ok quiet=ping end=stay ; conn=ok ack=ok quiet=ping end=stay" driver (pick r [ 200; 300; 1000 ]))
  | _ -> let t = pick r [ 200; 250; 300; 400 ] in
    ("acktmo", t, Printf.sprintf "RUN %s 3000 start wait:Success:1 pubt1:%d:%d sleep:%d ; conn=ok ack=ok quiet=pub end=stay ; conn=ok ack=ok quiet=pub end=stay" driver (1 + rand_int r 30) t (t + 1500))

let main (seed : int) (count : int) (harness_path : string) (_extra : string list) =
  let r = rng_make seed in
  let h = harness_start harness_path in
  let dist = Hashtbl.create 16 in
  let fails = ref [] and samples = ref [] and cases = ref 0 in
  for _ = 1 to count do
    let (family, t, scenario) = gen r in
    let reply = ask h scenario in
    incr cases;
    bump dist ("family:" ^ family);
    bump dist (match split_ws scenario with _ :: d :: _ -> "driver:" ^ d | _ -> "driver:?");
    if L.length !samples < 3 then samples := (scenario ^ " -> " ^ reply) :: !samples;
    L.iter (fun f -> if not (L.exists (fun g -> g.signature = f.signature) !fails) then fails := f :: !fails) (check family t scenario reply)
  done;
  harness_stop h;
  print_endline (jobj [
    "cases", string_of_int !cases; "events", string_of_int (3 * !cases); "distinct_nontrivial", string_of_int !cases;
    "distribution", jtable dist; "samples", jlist (L.map jstr (L.rev !samples));
    "notes", jlist [jstr "real tokio / threaded clients in real time on scripted transports: sampled, generous margins"];
    "failures", jlist (L.map (fun f -> jobj ["kind", jstr f.kind; "detail", jstr f.detail; "signature", jstr f.signature]) (L.rev !fails)) ])
