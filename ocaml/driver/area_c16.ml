module L = Stdlib.List
module String = Stdlib.String
(* C16 correspondence: extracted Validate.Rules / Validate.Topic (implementation model) and
   Validate.Spec (specification) against validate_packet_outbound / _outbound_internal /
   _inbound_internal and is_valid_topic_filter_internal of /repo (facade commands VSTATIC,
   VDYNP, VINP, FILTERX).

   One outbound case = (settings, connect options, alias resolution, submitted packet p, packet id).
     tie      : verdict KIND of the model <> of the implementation (static on p, send-time on bind_pid p id)
     property : accepted by the implementation (both Ok) but Spec.violations <> []      -> c16-sound:<rules>
                Spec.conforms, packet id unset at submission, but rejected              -> c16-complete:<kind>:..
   Inbound cases (VINP) are tie only.
   Corpus / replay lines:
     OUT <12 settings tokens> | <skip> <alias> | <id> | CO <connect options> PKT <packet>
     IN  <12 settings tokens|nosettings> PKT <packet>
     FIL x<filter> *)
open Util
open Packets
open Settings
open Spec

type fail = { kind : string; detail : string; signature : string }

let rule_name (r : rule) : string = match r with
  | RNotClientPacket -> "RNotClientPacket" | RStringLen -> "RStringLen" | RStringNul -> "RStringNul" | RBinaryLen -> "RBinaryLen"
  | RUserPropertyValueLen -> "RUserPropertyValueLen" | RPacketTooBig -> "RPacketTooBig"
  | RMaximumPacketSize -> "RMaximumPacketSize" | RPacketIdZero -> "RPacketIdZero" | RTopicName -> "RTopicName"
  | RTopicNul -> "RTopicNul" | RTopicAliasZero -> "RTopicAliasZero" | RMaximumQos -> "RMaximumQos"
  | RRetainNotAvailable -> "RRetainNotAvailable" | RDupOnFirstDelivery -> "RDupOnFirstDelivery"
  | RSubscriptionIdInPublish -> "RSubscriptionIdInPublish" | RResponseTopic -> "RResponseTopic"
  | REmptySubscriptionList -> "REmptySubscriptionList" | RTopicFilter -> "RTopicFilter"
  | RSharedFilterMalformed -> "RSharedFilterMalformed" | RWildcardNotAvailable -> "RWildcardNotAvailable"
  | RSharedNotAvailable -> "RSharedNotAvailable" | RNoLocalOnShared -> "RNoLocalOnShared"
  | RSubscriptionIdRange -> "RSubscriptionIdRange" | RSubscriptionIdNotAvailable -> "RSubscriptionIdNotAvailable"
  | RSessionExpiry -> "RSessionExpiry" | RAuthMethodMissing -> "RAuthMethodMissing"
  | RReceiveMaximumZero -> "RReceiveMaximumZero" | RMaximumPacketSizeZero -> "RMaximumPacketSizeZero"
  | RAuthDataWithoutMethod -> "RAuthDataWithoutMethod" | RWillTopic -> "RWillTopic"

let outcome_text (o : unit Outcome.outcome) : string = match o with
  | Outcome.Ok () -> "ok"
  | Outcome.Panic _ -> "panic"
  | Outcome.Err k -> "err:" ^ (match k with
      | Outcome.EPacketValidationFailure -> "PacketValidationFailure" | Outcome.EProtocolError -> "ProtocolError"
      | Outcome.EEncodingFailure -> "EncodingFailure" | Outcome.EUnimplemented -> "Unimplemented"
      | _ -> "Other")

(* ---------------- generators ---------------- *)
let tokens = [| "/"; "+"; "#"; "$share"; "$"; "a"; "b"; "\xc3\xa9" |]
let gen_tokstr (r : rng) : string =
  let n = rand_int r 7 in
  String.concat "" (L.init n (fun _ -> if chance r 2 then "\x00" else pick_arr r tokens))
let gen_topic_like (r : rng) : string =
  match rand_int r 10 with
  | 0 | 1 | 2 -> gen_tokstr r
  | 3 -> "a/b" | 4 -> "$share/a/b" | 5 -> "a/+/b" | 6 -> "a/#"
  | 7 -> String.concat "/" (L.init (1 + rand_int r 3) (fun _ -> pick r ["a"; "b"; "\xc3\xa9"; "ab"]))
  | 8 -> pick r ["$share/a/+"; "$share/+/a"; "$share//a"; "$share/a"; "$share/a/"; "$share/a//"; "$share/a/#"; "+/#"; "#/a"; "a+"; ""]
  | _ -> "t/" ^ string_of_int (rand_int r 100)
let gen_topic_name (r : rng) : string =
  if chance r 70 then String.concat "/" (L.init (1 + rand_int r 3) (fun _ -> pick r ["a"; "b"; "\xc3\xa9"; "ab"; "$x"; ""]))
  else gen_topic_like r
let big_len (r : rng) = pick r [65535; 65536; 65534; 65535; 65536; 70000]
(* D28: a U+0000 somewhere inside a string (or binary: must stay acceptable) field, about one field in 25 *)
let with_nul (r : rng) (s : string) : string =
  if chance r 4 then begin
    let n = String.length s in
    let k = (match rand_int r 3 with 0 -> 0 | 1 -> n | _ -> rand_int r (n + 1)) in
    String.sub s 0 k ^ "\x00" ^ String.sub s k (n - k)
  end else s
let gen_sized (r : rng) ?(big = 2) () : string =
  if chance r big then String.make (big_len r) 'x'
  else with_nul r (String.make (pick r [0; 1; 2; 5; 127; 128; 3]) 'y')
let with_big (r : rng) (s : string) : string =
  (* rarely stretch a (topic / filter) string to the length limit *)
  if chance r 1 then (let n = big_len r in s ^ String.make (max 0 (n - String.length s)) 'z') else s
let bs = bytes_of_string
let opt (r : rng) pct (f : unit -> 'a) : 'a option = if chance r pct then Some (f ()) else None
let gen_up (r : rng) : user_property list option =
  opt r 35 (fun () -> L.init (rand_int r 3) (fun _ ->
      { up_name = bs (gen_sized r ~big:3 ()); up_value = bs (gen_sized r ~big:4 ()) }))

let gen_publish (r : rng) : publish =
  { pub_pid = n_of_int (if chance r 90 then 0 else pick r [1; 7; 65535]);
    pub_topic = bs (with_big r (gen_topic_name r));
    pub_qos = n_of_int (rand_int r 3); pub_dup = chance r 5; pub_retain = chance r 40;
    pub_payload = opt r 70 (fun () -> bs (if chance r 2 then String.make (pick r [65536; 100000]) 'p' else String.make (rand_int r 200) 'p'));
    pub_pfi = opt r 20 (fun () -> n_of_int (rand_int r 2));
    pub_mei = opt r 20 (fun () -> n_of_string (pick r ["0"; "1"; "4294967295"]));
    pub_alias = opt r 30 (fun () -> n_of_int (pick r [0; 1; 2; 5; 65535; 1]));
    pub_response_topic = opt r 25 (fun () -> bs (with_big r (if chance r 70 then "r/a" else gen_topic_like r)));
    pub_correlation = opt r 20 (fun () -> bs (gen_sized r ~big:5 ()));
    pub_subids = opt r 4 (fun () -> [n_of_int (pick r [0; 1; 268435455])]);
    pub_content_type = opt r 20 (fun () -> bs (gen_sized r ~big:5 ()));
    pub_up = gen_up r }

let gen_subscription (r : rng) : subscription =
  { sub_filter = bs (with_big r (gen_topic_like r)); sub_qos = n_of_int (rand_int r 3); sub_no_local = chance r 30;
    sub_rap = chance r 30; sub_rh = n_of_int (rand_int r 3) }

let gen_ack (r : rng) (codes : int list) : ack =
  { ack_pid = n_of_int (if chance r 15 then 0 else pick r [1; 5; 65535]); ack_rc = n_of_int (pick r codes);
    ack_reason = opt r 25 (fun () -> bs (gen_sized r ~big:5 ())); ack_up = gen_up r }

let gen_connect (r : rng) : connect =
  { con_keep_alive = n_of_int (pick r [0; 60; 65535]); con_clean_start = rand_bool r;
    con_client_id = opt r 70 (fun () -> bs (gen_sized r ~big:4 ()));
    con_username = opt r 30 (fun () -> bs (gen_sized r ~big:4 ()));
    con_password = opt r 30 (fun () -> bs (gen_sized r ~big:4 ()));
    con_sei = opt r 30 (fun () -> n_of_int (pick r [0; 10])); con_rri = opt r 20 (fun () -> rand_bool r);
    con_rpi = opt r 20 (fun () -> rand_bool r);
    con_receive_max = opt r 40 (fun () -> n_of_int (pick r [0; 1; 10; 65535]));
    con_tam = opt r 30 (fun () -> n_of_int (pick r [0; 5]));
    con_max_packet = opt r 40 (fun () -> n_of_string (pick r ["0"; "1"; "1000"; "4294967295"]));
    con_auth_method = opt r 25 (fun () -> bs (gen_sized r ~big:4 ()));
    con_auth_data = opt r 25 (fun () -> bs (gen_sized r ~big:4 ()));
    con_will_delay = opt r 20 (fun () -> n_of_int (pick r [0; 5]));
    con_will = opt r 40 (fun () -> { (gen_publish r) with pub_pid = N0; pub_dup = false; pub_subids = None });
    con_up = gen_up r }

let puback_codes = [0; 0; 0; 16; 128; 131; 135; 144; 145; 151; 153]
let pubrel_codes = [0; 0; 146]
let disconnect_codes = [0; 0; 4; 128; 129; 130; 131; 147; 148; 152]
let auth_codes = [0; 24; 25]

let gen_out_packet (r : rng) : packet =
  match rand_int r 100 with
  | x when x < 34 -> Publish (gen_publish r)
  | x when x < 58 ->
    Subscribe { s_pid = n_of_int (if chance r 92 then 0 else 3);
                s_subs = L.init (pick r [0; 1; 1; 1; 2; 3]) (fun _ -> gen_subscription r);
                s_subid = opt r 35 (fun () -> n_of_string (pick r ["0"; "1"; "5"; "268435455"; "268435456"; "4294967295"]));
                s_up = gen_up r }
  | x when x < 72 ->
    Unsubscribe { u_pid = n_of_int (if chance r 92 then 0 else 3);
                  u_filters = L.init (pick r [0; 1; 1; 2; 3]) (fun _ -> bs (with_big r (gen_topic_like r))); u_up = gen_up r }
  | x when x < 82 ->
    Disconnect { d_rc = n_of_int (pick r disconnect_codes); d_sei = opt r 50 (fun () -> n_of_int (pick r [0; 0; 5; 100]));
                 d_reason = opt r 25 (fun () -> bs (gen_sized r ~big:5 ())); d_up = gen_up r;
                 d_server_ref = opt r 15 (fun () -> bs (gen_sized r ~big:5 ())) }
  | x when x < 85 -> Puback (gen_ack r puback_codes)
  | x when x < 88 -> Pubrec (gen_ack r puback_codes)
  | x when x < 90 -> Pubrel (gen_ack r pubrel_codes)
  | x when x < 92 -> Pubcomp (gen_ack r pubrel_codes)
  | x when x < 94 ->
    Auth { au_rc = n_of_int (pick r auth_codes); au_method = opt r 75 (fun () -> bs (gen_sized r ~big:5 ()));
           au_data = opt r 30 (fun () -> bs (gen_sized r ~big:5 ())); au_reason = opt r 25 (fun () -> bs (gen_sized r ~big:5 ()));
           au_up = gen_up r }
  | x when x < 97 -> Connect (gen_connect r)
  | 97 -> Pingreq
  | 98 -> Pingresp
  | _ -> Suback { sa_pid = n_of_int 1; sa_reason = None; sa_up = None; sa_codes = [N0] }

let default_co : connect_opts =
  { co_keep_alive = None; co_rejoin = N0; co_client_id = None; co_username = None; co_password = None; co_sei = None;
    co_rri = None; co_rpi = None; co_receive_max = None; co_tam = None; co_max_packet = None; co_will_delay = None;
    co_will = None; co_up = None }

let co_text (c : connect_opts) : string =
  let o = Ptext.o and n = Ptext.n and hx = Ptext.hx and b = Ptext.b in
  String.concat " " [ o n c.co_keep_alive; n c.co_rejoin; o hx c.co_client_id; o hx c.co_username; o hx c.co_password;
    o n c.co_sei; o b c.co_rri; o b c.co_rpi; o n c.co_receive_max; o n c.co_tam; o n c.co_max_packet; o n c.co_will_delay;
    o Ptext.up_list c.co_up; (match c.co_will with None -> "NOWILL" | Some w -> "WILL " ^ Ptext.publish_fields w) ]
let co_of_tokens (t : string list) : connect_opts =
  match t with
  | ka :: rj :: cid :: un :: pw :: sei :: rri :: rpi :: rm :: tam :: mp :: wd :: up :: rest ->
    let po = Ptext.po and pn = Ptext.pn and ph = Ptext.ph and pb = Ptext.pb in
    { co_keep_alive = po pn ka; co_rejoin = pn rj; co_client_id = po ph cid; co_username = po ph un; co_password = po ph pw;
      co_sei = po pn sei; co_rri = po pb rri; co_rpi = po pb rpi; co_receive_max = po pn rm; co_tam = po pn tam;
      co_max_packet = po pn mp; co_will_delay = po pn wd; co_up = po Ptext.pup up;
      co_will = (match rest with "WILL" :: w -> Some (fst (Ptext.take_publish w)) | _ -> None) }
  | _ -> failwith "connect options"

let settings_text (s : settings) : string =
  let n = string_of_n and b v = if v then "1" else "0" in
  String.concat " " [ n s.st_maximum_qos; n s.st_session_expiry_interval; n s.st_receive_maximum_from_server;
    n s.st_maximum_packet_size_to_server; n s.st_topic_alias_maximum_to_server; n s.st_server_keep_alive;
    b s.st_retain_available; b s.st_wildcard_subscriptions_available; b s.st_subscription_identifiers_available;
    b s.st_shared_subscriptions_available; b s.st_rejoined_session; hex_of_bytes s.st_client_id ]
let settings_of_tokens (t : string list) : settings =
  match t with
  | [mq; sei; rm; mp; tam; ka; ra; wc; si; sh; rj; cid] ->
    let pn = n_of_string and pb x = (x = "1") in
    { st_maximum_qos = pn mq; st_session_expiry_interval = pn sei; st_receive_maximum_from_server = pn rm;
      st_maximum_packet_size_to_server = pn mp; st_topic_alias_maximum_to_server = pn tam; st_server_keep_alive = pn ka;
      st_retain_available = pb ra; st_wildcard_subscriptions_available = pb wc; st_subscription_identifiers_available = pb si;
      st_shared_subscriptions_available = pb sh; st_rejoined_session = pb rj; st_client_id = bytes_of_hex cid }
  | _ -> failwith "settings"

type ocase = { st : settings option; co : connect_opts; res : resolution; id : int; pkt : packet }
type case = Out of ocase | In of settings option * packet | Fil of string

let gen_settings (r : rng) (size : int) : settings =
  let mp = match rand_int r 10 with
    | 0 -> max 1 (size - 1) | 1 | 2 -> size | 3 -> size + 1 | 4 -> pick r [1; 2; 5; 20; 100] | 5 -> 268435455
    | _ -> 4294967295 in
  { st_maximum_qos = n_of_int (pick r [0; 1; 2; 2]); st_session_expiry_interval = n_of_int (pick r [0; 10]);
    st_receive_maximum_from_server = n_of_int 10; st_maximum_packet_size_to_server = n_of_int mp;
    st_topic_alias_maximum_to_server = n_of_int (pick r [0; 5]); st_server_keep_alive = n_of_int 0;
    st_retain_available = chance r 60; st_wildcard_subscriptions_available = chance r 60;
    st_subscription_identifiers_available = chance r 60; st_shared_subscriptions_available = chance r 60;
    st_rejoined_session = false; st_client_id = bs "c" }

let gen_case (r : rng) : case =
  if chance r 12 then begin
    (* inbound *)
    let pkt = match rand_int r 12 with
      | 0 | 1 -> Connack { ca_session_present = chance r 40; ca_rc = n_of_int (pick r [0; 0; 128; 135]); ca_sei = None;
                           ca_receive_max = opt r 50 (fun () -> n_of_int (pick r [0; 1; 10])); ca_max_qos = opt r 50 (fun () -> n_of_int (rand_int r 3));
                           ca_retain_avail = None; ca_max_packet = opt r 50 (fun () -> n_of_int (pick r [0; 1; 1000])); ca_assigned_id = None;
                           ca_tam = None; ca_reason = None; ca_up = None; ca_wildcard = None; ca_subid_avail = None; ca_shared = None;
                           ca_server_keep_alive = None; ca_response_info = None; ca_server_ref = None; ca_auth_method = None; ca_auth_data = None }
      | 2 | 3 -> Publish { (gen_publish r) with pub_topic = bs (pick r [""; "a"; "a/b"]); pub_pid = n_of_int (pick r [0; 5]) }
      | 4 -> Puback (gen_ack r puback_codes) | 5 -> Pubrec (gen_ack r puback_codes)
      | 6 -> Pubrel (gen_ack r pubrel_codes) | 7 -> Pubcomp (gen_ack r pubrel_codes)
      | 8 -> Suback { sa_pid = n_of_int (pick r [0; 5]); sa_reason = None; sa_up = None; sa_codes = [N0] }
      | 9 -> Unsuback { ua_pid = n_of_int (pick r [0; 5]); ua_reason = None; ua_up = None; ua_codes = [N0] }
      | 10 -> pick r [ Disconnect { d_rc = N0; d_sei = Some (n_of_int 0); d_reason = None; d_up = None; d_server_ref = None };
                       Disconnect { d_rc = n_of_int 128; d_sei = None; d_reason = None; d_up = None; d_server_ref = None };
                       Auth { au_rc = N0; au_method = None; au_data = None; au_reason = None; au_up = None };
                       Auth { au_rc = n_of_int 24; au_method = Some (bs "m"); au_data = None; au_reason = None; au_up = None } ]
      | _ -> pick r [ Pingresp; Pingreq; Subscribe { s_pid = N0; s_subs = []; s_subid = None; s_up = None };
                      Unsubscribe { u_pid = N0; u_filters = []; u_up = None }; Connect (gen_connect r) ] in
    In ((if chance r 20 then None else Some (gen_settings r 100)), pkt)
  end else begin
    let pkt = gen_out_packet r in
    let id = if chance r 90 then pick r [1; 2; 65535; 77] else 0 in
    let res = (match pkt with
        | Publish p when chance r 40 ->
          let a = pick r [1; 2; 5] in
          { r_skip_topic = chance r 50; r_alias = Some (n_of_int a) }
        | _ -> { r_skip_topic = false; r_alias = None }) in
    let size = int_of_n (spec_total_size (bind_pid pkt (n_of_int id)) res) in
    let st = if chance r 2 then None else Some (gen_settings r size) in
    let co = { default_co with co_sei = opt r 60 (fun () -> n_of_int (pick r [0; 0; 10])) } in
    Out { st; co; res; id; pkt }
  end

let res_text (r : resolution) = Printf.sprintf "%s %s" (if r.r_skip_topic then "1" else "0") (match r.r_alias with None -> "-" | Some a -> string_of_n a)
let shorten (s : string) = if String.length s > 600 then String.sub s 0 600 ^ Printf.sprintf "...(%d chars)" (String.length s) else s
let case_to_string (c : case) : string =
  match c with
  | Out o -> Printf.sprintf "OUT %s | %s | %d | CO %s PKT %s" (match o.st with None -> "nosettings" | Some s -> settings_text s)
               (res_text o.res) o.id (co_text o.co) (Ptext.packet_to_text o.pkt)
  | In (st, p) -> Printf.sprintf "IN %s PKT %s" (match st with None -> "nosettings" | Some s -> settings_text s) (Ptext.packet_to_text p)
  | Fil f -> "FIL " ^ hex_of_bytes (bs f)

let rec split_at (tok : string) (l : string list) : string list * string list =
  match l with [] -> ([], []) | x :: r -> if x = tok then ([], r) else let (a, b) = split_at tok r in (x :: a, b)
let string_of_hex (t : string) : string =
  let l = bytes_of_hex t in let a = Array.of_list l in String.init (Array.length a) (fun i -> Char.chr (int_of_n a.(i)))
let parse_case (line : string) : case option =
  try match split_ws line with
    | "OUT" :: rest ->
      let (stt, rest) = split_at "|" rest in
      let (rt, rest) = split_at "|" rest in
      let (idt, rest) = split_at "|" rest in
      let (cot, pt) = split_at "PKT" rest in
      let st = (match stt with ["nosettings"] -> None | t -> Some (settings_of_tokens t)) in
      let res = (match rt with [s; a] -> { r_skip_topic = (s = "1"); r_alias = (if a = "-" then None else Some (n_of_string a)) } | _ -> failwith "res") in
      Some (Out { st; res; id = int_of_string (L.hd idt); co = co_of_tokens (L.tl cot); pkt = Ptext.packet_of_tokens pt })
    | "IN" :: rest ->
      let (stt, pt) = split_at "PKT" rest in
      Some (In ((match stt with ["nosettings"] -> None | t -> Some (settings_of_tokens t)), Ptext.packet_of_tokens pt))
    | ["FIL"; f] -> Some (Fil (string_of_hex f))
    | _ -> None
  with _ -> None

let kind_name (p : packet) = match p with
  | Connect _ -> "CONNECT" | Connack _ -> "CONNACK" | Publish _ -> "PUBLISH" | Puback _ -> "PUBACK" | Pubrec _ -> "PUBREC"
  | Pubrel _ -> "PUBREL" | Pubcomp _ -> "PUBCOMP" | Subscribe _ -> "SUBSCRIBE" | Suback _ -> "SUBACK"
  | Unsubscribe _ -> "UNSUBSCRIBE" | Unsuback _ -> "UNSUBACK" | Pingreq -> "PINGREQ" | Pingresp -> "PINGRESP"
  | Disconnect _ -> "DISCONNECT" | Auth _ -> "AUTH"

let pid_unset (p : packet) : bool = match p with
  | Publish x -> x.pub_pid = N0 | Subscribe s -> s.s_pid = N0 | Unsubscribe u -> u.u_pid = N0 | _ -> true

(* the 12 capability / no_local combinations of FILTERX, in its order *)
let combos = L.concat_map (fun w -> L.concat_map (fun s -> L.map (fun nl -> (w, s, nl)) [None; Some false; Some true]) [false; true]) [false; true]

let check_filter (h : harness) (f : string) (dist : (string, int) Hashtbl.t) : fail option =
  let fb = bs f in
  let reply = ask h ("FILTERX " ^ hex_of_bytes fb) in
  let model = String.concat "" (L.map (fun (w, s, nl) ->
      match Topic.is_valid_topic_filter_internal fb (Some (s, w)) nl with
      | Outcome.Ok true -> "1" | Outcome.Ok false -> "0" | _ -> "P") combos) in
  let spec = String.concat "" (L.map (fun (w, s, nl) -> if spec_filter_verdict w s nl fb then "1" else "0") combos) in
  bump dist (if String.contains reply '1' then "filter-accepted" else "filter-rejected");
  if reply <> spec then
    Some { kind = "property"; detail = Printf.sprintf "FIL %s (%S) :: impl=%s spec=%s (wildcard x shared x no_local(-,0,1))" (hex_of_bytes fb) f reply spec;
           signature = (if String.length f >= 6 && String.sub f 0 6 = "$share" then "c16-filter:shared-malformed" else "c16-filter:grammar") }
  else if reply <> model then
    Some { kind = "tie"; detail = Printf.sprintf "FIL %s :: impl=%s model=%s" (hex_of_bytes fb) reply model; signature = "c16-filter-tie" }
  else None

let run_case (h : harness) (c : case) (dist : (string, int) Hashtbl.t) : fail list * string * bool =
  let desc = shorten (case_to_string c) in
  let full = case_to_string c in
  match c with
  | Fil f -> ((match check_filter h f dist with Some x -> [x] | None -> []), desc, true)
  | In (st, p) ->
    bump dist ("in-" ^ kind_name p);
    let reply = ask h (Printf.sprintf "VINP %s %s" (match st with None -> "nosettings" | Some s -> settings_text s) (Ptext.packet_to_text p)) in
    let model = outcome_text (Rules.validate_inbound_internal st p) in
    bump dist ("in-verdict-" ^ reply);
    ((if reply <> model then [ { kind = "tie"; detail = Printf.sprintf "%s :: inbound impl=%s model=%s" full reply model; signature = "c16-inbound-tie" } ] else []),
     desc, reply <> "ok")
  | Out o ->
    bump dist ("out-" ^ kind_name o.pkt);
    let p = o.pkt in
    let p' = bind_pid p (n_of_int o.id) in
    let s_reply = ask h ("VSTATIC " ^ Ptext.packet_to_text p) in
    let d_reply = ask h (Printf.sprintf "VDYNP %s %s CO %s PKT %s" (match o.st with None -> "nosettings" | Some s -> settings_text s)
                           (res_text o.res) (co_text o.co) (Ptext.packet_to_text p')) in
    let s_model = outcome_text (Rules.validate_outbound p) in
    let d_model = outcome_text (Rules.validate_outbound_internal o.st o.co o.res p') in
    bump dist ("static-" ^ s_reply); bump dist ("dynamic-" ^ d_reply);
    let tie =
      if s_reply <> s_model then Some { kind = "tie"; detail = Printf.sprintf "%s :: static impl=%s model=%s" full s_reply s_model; signature = "c16-static-tie" }
      else if d_reply <> d_model then Some { kind = "tie"; detail = Printf.sprintf "%s :: send-time impl=%s model=%s" full d_reply d_model; signature = "c16-dynamic-tie" }
      else None in
    let props =
      match o.st with
      | None -> []
      | Some st ->
        let accepted = (s_reply = "ok" && d_reply = "ok") in
        let viol = L.sort_uniq compare (L.map rule_name (violations st o.co o.res p')) in
        L.iter (fun v -> bump dist ("violates-" ^ v)) viol;
        if accepted then bump dist "accepted";
        if accepted && viol <> [] then
          (* one failure per violated rule *)
          L.map (fun v -> { kind = "property"; detail = Printf.sprintf "%s :: accepted by validation but violates %s" full v;
                            signature = "c16-sound:" ^ v }) viol
        else if (not accepted) && viol = [] && pid_unset p then
          [ { kind = "property"; detail = Printf.sprintf "%s :: conforms but rejected (static=%s send-time=%s)" full s_reply d_reply;
              signature = Printf.sprintf "c16-complete:%s:%s/%s" (kind_name p) s_reply d_reply } ]
        else [] in
    let interesting = (s_reply <> "ok" || d_reply <> "ok") in
    ((match props with [] -> (match tie with Some t -> [t] | None -> []) | l -> l), desc, interesting)

(* ---- exhaustive filter table: every concatenation of at most [maxtok] tokens ---- *)
let table_tokens = [| "/"; "+"; "#"; "$share"; "a"; "b" |]
let iter_table (maxtok : int) (only_len : int option) (f : string -> unit) =
  let rec go depth prefix =
    (match only_len with Some l when depth <> l -> () | _ -> f prefix);
    if depth < maxtok then Array.iter (fun t -> go (depth + 1) (prefix ^ t)) table_tokens in
  go 0 ""

let read_cases (file : string) : case list =
  let ic = open_in file in
  let rec go acc = match input_line ic with
    | l -> (if String.length l > 0 && l.[0] = '#' then go acc else match parse_case l with Some c -> go (c :: acc) | None -> go acc)
    | exception End_of_file -> close_in ic; L.rev acc in
  let plain = go [] in
  if plain <> [] then plain
  else begin
    (* a replay file written by ./check (JSON): the case is the text before " :: " in failure.detail *)
    let ic = open_in file in
    let n = in_channel_length ic in
    let s = really_input_string ic n in close_in ic;
    let find_from (pat : string) (from : int) : int option =
      let m = String.length pat in
      let rec go i = if i + m > String.length s then None else if String.sub s i m = pat then Some i else go (i + 1) in go from in
    match find_from "\"detail\": \"" 0 with
    | None -> []
    | Some i ->
      let start = i + 11 in
      (match find_from " :: " start with
       | None -> []
       | Some j -> (match parse_case (String.sub s start (j - start)) with Some c -> [c] | None -> []))
  end

let main (seed : int) (count : int) (harness_path : string) (extra : string list) =
  let r = rng_make seed in
  let h = harness_start harness_path in
  let dist = Hashtbl.create 64 in
  let seen = Hashtbl.create 4096 in
  let fails = ref [] and samples = ref [] and nontrivial = ref 0 and events = ref 0 in
  let nfail_by_sig = Hashtbl.create 16 in
  let record (f : fail option) =
    match f with
    | None -> ()
    | Some f ->
      (* keep at most 3 failures per signature *)
      let k = (try Hashtbl.find nfail_by_sig f.signature with Not_found -> 0) in
      Hashtbl.replace nfail_by_sig f.signature (k + 1);
      if k < 3 then fails := { f with detail = shorten f.detail } :: !fails in
  let shard = seed mod 1000 in
  let table_exhaustive = ref 0 in
  (* the exhaustive filter table: shard 0 runs every string of at most 6 tokens (55 987 strings)
     unless "notable" is given; shard 1 (thorough tier) the 7-token strings *)
  let want_table = L.mem "table" extra in
  if want_table && shard = 0 then begin
    iter_table 6 None (fun f -> incr table_exhaustive; incr events; record (check_filter h f dist))
  end;
  if want_table && shard = 1 && count >= 50000 then
    iter_table 7 (Some 7) (fun f -> incr events; record (check_filter h f dist));
  let corpus_cases = L.concat_map read_cases (L.filter (fun f -> Sys.file_exists f) extra) in
  let ncorpus = L.length corpus_cases in
  let corpus_left = ref corpus_cases in
  for i = 1 to count + ncorpus do
    let c = (match !corpus_left with x :: tl -> corpus_left := tl; x | [] -> gen_case r) in
    let (f, desc, interesting) = run_case h c dist in
    incr events;
    if not (Hashtbl.mem seen desc) then begin
      Hashtbl.add seen desc ();
      if interesting then incr nontrivial
    end;
    if i <= 3 then samples := desc :: !samples;
    L.iter (fun x -> record (Some x)) f
  done;
  harness_stop h;
  print_endline (jobj [
    "cases", string_of_int (count + ncorpus + !table_exhaustive); "corpus_cases", string_of_int ncorpus; "events", string_of_int !events;
    "distinct_nontrivial", string_of_int !nontrivial;
    "filter_table_strings", string_of_int !table_exhaustive;
    "distribution", jtable dist;
    "samples", jlist (L.map jstr (L.rev !samples));
    "failures", jlist (L.map (fun f -> jobj ["kind", jstr f.kind; "detail", jstr f.detail; "signature", jstr f.signature]) (L.rev !fails)) ])
