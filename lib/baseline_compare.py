#!/usr/bin/env python3
"""Compares a `cargo test --workspace` log with /root/.vp/BASELINE.json's stable_pass list."""
import json, re, sys
base = json.load(open("/root/.vp/BASELINE.json"))
stable = set(base["stable_pass"])
log = open(sys.argv[1]).read()
ok = set(); failed = set()
for m in re.finditer(r"^test (\S+) \.\.\. (ok|FAILED|ignored)", log, flags=re.M):
    (ok if m.group(2) == "ok" else failed).add(m.group(1))
# stable names carry a crate prefix
def strip(n): return n.split("::", 1)[1] if "::" in n else n
missing = sorted(n for n in stable if strip(n) not in ok)
print("stable_pass:", len(stable), "passed in log:", len(ok), "stable tests not passing:", len(missing))
for n in missing[:40]: print("  NOT PASSING:", n)
sys.exit(1 if missing else 0)
