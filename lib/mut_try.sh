#!/bin/bash
# mut_try.sh <check id> <file relative to repo> <python regex> <replacement>: my own quick mutation of a scratch worktree of /repo
# (never /repo itself), to see that a monitor has teeth.  Prints the VIOLATION lines.
set -u
C=$1; F=$2; PAT=$3; REP=$4
WT=/tmp/seedrepo
cd /verif
git -C /repo worktree add -q --detach $WT HEAD || exit 2
trap 'git -C /repo worktree remove --force $WT 2>/dev/null' EXIT
python3 - "$WT/$F" "$PAT" "$REP" <<'PY'
import re,sys
p,pat,rep=sys.argv[1:4]
s=open(p).read(); n=len(re.findall(pat,s,flags=re.S))
assert n==1, "pattern matches %d times"%n
open(p,'w').write(re.sub(pat,lambda m: rep,s,count=1,flags=re.S))
PY
[ $? -eq 0 ] || exit 3
git -C $WT diff --stat | tail -1
cp /verif/evidence/$C.json /verif/build/seed_evidence/$C.clean.json 2>/dev/null
out=$(VERIF_REPO=$WT ./check $C 2>&1); rc=$?
cp /verif/build/seed_evidence/$C.clean.json /verif/evidence/$C.json 2>/dev/null
echo "== $C exit=$rc"; echo "$out" | grep -E "VIOLATION|quick:" | cut -c1-300
python3 - $C <<'PY'
import json,sys
try:
    r=json.load(open('/verif/evidence/replays/%s-1-0.json'%sys.argv[1])); print(r['kind'], r.get('failure',{}).get('signature'))
except Exception as e: print(e)
PY
