#!/usr/bin/env python3
"""Regenerates MANIFEST.json from lib/props.py and lib/manifest_meta.py (kept valid at all times)."""
import json, os, sys
sys.path.insert(0, os.path.dirname(os.path.abspath(__file__)))
from props import PROPS, META, NOT_CLAIMED as NOT_APPLICABLE, HOOK_COMMITS

checks = []
for pid in sorted(PROPS):
    m = META[pid]
    checks.append({
        "property_id": pid,
        "quick_cmd": "./check %s --tier quick" % pid,
        "thorough_cmd": "./check %s --tier thorough" % pid,
        "evidence_file": "/verif/evidence/%s.json" % pid,
        "replay_cmd_template": "./check %s --replay {path}" % pid,
        "engine": "coq-model+correspondence",
        "level_claimed": {"category": "proof", "text": m["level_text"], "design_ref": m["design_ref"]},
        "level_note": m["level_note"],
        "technique": m["technique"],
    })
manifest = {
    "version": 1,
    "setup_cmd": "./check setup",
    "hooks": {
        "guard": "cargo feature `verif` on gneiss-mqtt (and on gneiss-mqtt-aws where present)",
        "enable": "harness/Cargo.toml depends on gneiss-mqtt with features [\"verif\", \"tokio\", \"threaded\", \"threaded-websockets\"]; built by `cargo build --offline` in /verif/harness",
        "baseline_off_cmd": "cd /repo && cargo test --workspace --no-fail-fast --offline",
        "source_commits": HOOK_COMMITS,
        "add_only": True,
    },
    "engines": [
        {"name": "coq-model+correspondence", "path": "/verif/coq, /verif/ocaml, /verif/harness, /verif/check",
         "serves_properties": sorted(PROPS),
         "kind_free_text": "Rocq/Coq 8.16.1 development (hand-written Gallina models + theorems), extracted to OCaml and run in lock-step against the implementation through the cfg(feature=verif) facade"}
    ],
    "checks": checks,
    "not_applicable": [{"property_id": p, "reason": r} for p, r in sorted(NOT_APPLICABLE.items()) if p not in PROPS],
    "notes": "All checks: machine-checked proof in Coq about hand-written models, tied to /repo's current source by a correspondence check on every run. See DESIGN.md.",
}
json.dump(manifest, open(os.path.join(os.path.dirname(os.path.dirname(os.path.abspath(__file__))), "MANIFEST.json"), "w"), indent=1)
print("MANIFEST.json written:", len(checks), "checks,", len(manifest["not_applicable"]), "not_applicable")
