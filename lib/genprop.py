#!/usr/bin/env python3
"""genprop.py <Cxx> <ImportModules comma> <lemma names...>: writes Properties/Cxx.v re-exporting lemmas as theorems
with pinned statements obtained from coqtop's `Check`, and the audit file."""
import subprocess, sys, re, os
prop, imports = sys.argv[1], sys.argv[2].split(',')
header = sys.argv[3]
lemmas = sys.argv[4:]
COQ='/verif/coq'
req = "From GM Require Import " + " ".join(imports) + ".\nFrom RecordUpdate Require Import RecordSet.\nOpen Scope N_scope.\nSet Printing Width 100000.\nSet Printing Depth 100000.\n"
script = req + "".join("Check @%s.\n" % l.split('=')[-1] for l in lemmas)
open('/tmp/_chk.v','w').write(script)
out = subprocess.run(['coqtop','-Q',COQ,'GM','-quiet','-batch','-l','/tmp/_chk.v'],capture_output=True,text=True)
txt = out.stdout + out.stderr
stmts = {}
for l in lemmas:
    src = l.split('=')[-1]
    m = re.search(r"^@?%s\s*\n?\s*:\s*(.*?)(?=^\S|\Z)" % re.escape(src), txt, flags=re.S|re.M)
    if not m:
        print("no statement for", src); print(txt[:2000]); sys.exit(1)
    stmts[l] = " ".join(m.group(1).split())
body = "(* %s *)\n%s\n" % (header, "From GM Require Import " + " ".join(imports) + ".\nFrom RecordUpdate Require Import RecordSet.\nOpen Scope N_scope.\n")
audit = "From GM Require Import " + " ".join(imports) + " Properties.%s.\nFrom RecordUpdate Require Import RecordSet.\nOpen Scope N_scope.\n" % prop
for l in lemmas:
    name, src = (l.split('=') + [None])[:2] if '=' in l else (prop + "_" + l, l)
    if '=' in l: name, src = l.split('=')
    body += "Theorem %s : %s.\nProof. exact @%s. Qed.\n\n" % (name, stmts[l], src)
    audit += "Check %s : %s.\nPrint Assumptions %s.\n" % (name, stmts[l], name)
open(os.path.join(COQ,'Properties',prop+'.v'),'w').write(body)
open(os.path.join(COQ,'Properties',prop+'_audit.v'),'w').write(audit)
print("wrote", prop, len(lemmas))
