"""Shared machinery of ./check: builds (cargo harness, Coq, extraction + OCaml driver), the
proof audit (pinned statements, Print Assumptions, forbidden vernacular), running driver
shards, evidence / violation / known-finding reporting."""
import json, os, re, subprocess, sys, time, glob, hashlib

VERIF = os.path.dirname(os.path.dirname(os.path.abspath(__file__)))
COQ = os.path.join(VERIF, "coq")
BUILD = os.path.join(VERIF, "build")
OCAML_BUILD = os.path.join(BUILD, "ocaml")
HARNESS_DIR = os.path.join(VERIF, "harness")
HARNESS_BIN = os.path.join(BUILD, "target", "debug", "vharness")
DRIVER_BIN = os.path.join(OCAML_BUILD, "_build", "default", "main.exe")
EVIDENCE = os.path.join(VERIF, "evidence")
REPLAYS = os.path.join(EVIDENCE, "replays")
NCPU = min(16, os.cpu_count() or 4)

ENV = dict(os.environ)
ENV.update({"CARGO_NET_OFFLINE": "true", "CARGO_TARGET_DIR": os.path.join(BUILD, "target")})

FORBIDDEN = re.compile(r"\b(Admitted|admit|Axiom|Axioms|Parameter|Parameters|Conjecture|Conjectures|Hypothesis|Hypotheses|Variable|Variables)\b|Unset\s+Guard|bypass_check|type-in-type|impredicative-set|Admit\s+Obligations|native_compute")
# Variable/Hypothesis are legal inside Sections only; files that use Sections are listed here
SECTION_FILES_OK = set()

ALLOWED_ASSUMPTIONS = {"Closed under the global context"}


def log(msg):
    print(msg, flush=True)


def run(cmd, cwd=None, timeout=None, env=None, capture=True):
    t0 = time.time()
    p = subprocess.run(cmd, cwd=cwd, env=env or ENV, timeout=timeout, shell=isinstance(cmd, str),
                       stdout=subprocess.PIPE if capture else None, stderr=subprocess.STDOUT if capture else None, text=True)
    return p.returncode, (p.stdout or ""), time.time() - t0


class BrokenTie(Exception):
    """A build / proof / correspondence step failed in a way that is not a concrete failing input."""
    def __init__(self, what, detail):
        super().__init__(what)
        self.what = what
        self.detail = detail


def build_harness():
    os.makedirs(BUILD, exist_ok=True)
    lock_src = "/repo/Cargo.lock"
    lock_dst = os.path.join(HARNESS_DIR, "Cargo.lock")
    if os.path.exists(lock_src):
        try:
            if not os.path.exists(lock_dst):
                open(lock_dst, "w").write(open(lock_src).read())
        except OSError:
            pass
    rc, out, dt = run(["cargo", "build", "--offline", "--quiet"], cwd=HARNESS_DIR, timeout=1800)
    if rc != 0:
        # a stale lock file is the usual reason: regenerate from /repo's and retry once
        try:
            open(lock_dst, "w").write(open(lock_src).read())
        except OSError:
            pass
        rc, out, dt = run(["cargo", "build", "--offline", "--quiet"], cwd=HARNESS_DIR, timeout=1800)
    if rc != 0:
        raise BrokenTie("harness-build", "cargo build of the harness against /repo (feature verif) failed:\n" + out[-4000:])
    return dt


def coq_sources():
    lines = open(os.path.join(COQ, "_CoqProject")).read().split("\n")
    return [l.strip() for l in lines if l.strip().endswith(".v")]


def ensure_coq_makefile():
    mk = os.path.join(COQ, "Makefile")
    proj = os.path.join(COQ, "_CoqProject")
    if not os.path.exists(mk) or os.path.getmtime(mk) < os.path.getmtime(proj):
        rc, out, _ = run(["coq_makefile", "-f", "_CoqProject", "-o", "Makefile"], cwd=COQ, timeout=120)
        if rc != 0:
            raise BrokenTie("coq-makefile", out)


def coq_make(targets, timeout=3000):
    ensure_coq_makefile()
    rc, out, dt = run(["make", "-j%d" % NCPU] + targets, cwd=COQ, timeout=timeout)
    if rc != 0:
        raise BrokenTie("coq-proof", "make %s failed — a proof obligation or model file no longer checks:\n%s" % (" ".join(targets), out[-6000:]))
    return dt


def coq_deps(vfile):
    """Transitive GM-project dependencies of a .v file (via coqdep), as relative paths."""
    seen = set()
    todo = [vfile]
    while todo:
        f = todo.pop()
        if f in seen:
            continue
        seen.add(f)
        try:
            txt = open(os.path.join(COQ, f)).read()
        except OSError:
            continue
        for m in re.finditer(r"From\s+GM\s+Require\s+(?:Import\s+|Export\s+)?((?:\w+(?:\.\w+)*\s+)*\w+(?:\.\w+)*)\s*\.(?:\s|$)", txt):
            for name in m.group(1).split():
                path = name.replace(".", "/") + ".v"
                if os.path.exists(os.path.join(COQ, path)):
                    todo.append(path)
    return sorted(seen)


def count_obligations(vfiles):
    n = 0
    for f in vfiles:
        txt = open(os.path.join(COQ, f)).read()
        txt = re.sub(r"\(\*.*?\*\)", "", txt, flags=re.S)
        n += len(re.findall(r"^\s*(?:Local\s+|Global\s+|#\[[^\]]*\]\s*)?(Theorem|Lemma|Corollary|Example|Fact|Remark|Proposition)\b", txt, flags=re.M))
    return n


def scan_forbidden():
    bad = []
    for f in glob.glob(os.path.join(COQ, "**", "*.v"), recursive=True):
        rel = os.path.relpath(f, COQ)
        txt = open(f).read()
        txt_nc = re.sub(r"\(\*.*?\*\)", "", txt, flags=re.S)
        in_section = 0
        for i, line in enumerate(txt_nc.split("\n"), 1):
            if re.match(r"\s*Section\b", line):
                in_section += 1
            if re.match(r"\s*End\b", line) and in_section > 0:
                in_section -= 1
            m = FORBIDDEN.search(line)
            if m:
                word = m.group(0)
                if word in ("Variable", "Variables", "Hypothesis", "Hypotheses") and in_section > 0:
                    continue
                bad.append("%s:%d: %s" % (rel, i, line.strip()[:120]))
    return bad


def audit(prop):
    """Compile Properties/<prop>_audit.v: pinned statements (Check name : stmt) and Print Assumptions."""
    audit_file = os.path.join("Properties", prop + "_audit.v")
    if not os.path.exists(os.path.join(COQ, audit_file)):
        raise BrokenTie("audit-missing", audit_file)
    rc, out, dt = run(["coqc", "-Q", ".", "GM", "-w", "-notation-overridden", audit_file], cwd=COQ, timeout=900)
    if rc != 0:
        raise BrokenTie("coq-audit", "pinned statement check failed (a property theorem was changed or removed):\n" + out[-4000:])
    # parse Print Assumptions outputs
    n_print = len(re.findall(r"^\s*Print Assumptions\b", open(os.path.join(COQ, audit_file)).read(), flags=re.M))
    closed = out.count("Closed under the global context")
    axioms = []
    if "Axioms:" in out:
        for block in out.split("Axioms:")[1:]:
            for line in block.split("\n")[1:]:
                if not line.strip() or not (line.startswith(" ") or ":" in line):
                    break
                m = re.match(r"^(\S+)\s*:", line)
                if m:
                    axioms.append(m.group(1))
    bad = scan_forbidden()
    if bad:
        raise BrokenTie("forbidden-vernacular", "\n".join(bad[:50]))
    return {"print_assumptions": n_print, "closed": closed, "axioms": sorted(set(axioms)), "audit_s": dt}


def build_driver(force=False):
    """Extraction (coqc Extract/Extract.v, run inside build/ocaml) + dune build of the driver."""
    os.makedirs(OCAML_BUILD, exist_ok=True)
    srcs = [os.path.join(COQ, f) for f in coq_sources()] + glob.glob(os.path.join(VERIF, "ocaml", "driver", "*.ml")) + \
           [os.path.join(COQ, "Extract", "Extract.v"), os.path.join(VERIF, "ocaml", "dune")]
    newest = max(os.path.getmtime(f) for f in srcs if os.path.exists(f))
    if not force and os.path.exists(DRIVER_BIN) and os.path.getmtime(DRIVER_BIN) >= newest:
        return 0.0
    t0 = time.time()
    # the models must be compiled first
    deps = [d[:-2] + ".vo" for d in coq_deps("Extract/Extract.v") if d != "Extract/Extract.v"]
    coq_make(deps)
    for f in glob.glob(os.path.join(OCAML_BUILD, "*.ml")) + glob.glob(os.path.join(OCAML_BUILD, "*.mli")):
        os.remove(f)
    rc, out, _ = run(["coqc", "-Q", COQ, "GM", "-w", "-all", os.path.join(COQ, "Extract", "Extract.v")], cwd=OCAML_BUILD, timeout=900)
    if rc != 0:
        raise BrokenTie("extraction", out[-4000:])
    for f in glob.glob(os.path.join(VERIF, "ocaml", "driver", "*.ml")):
        open(os.path.join(OCAML_BUILD, os.path.basename(f)), "w").write(open(f).read())
    open(os.path.join(OCAML_BUILD, "dune"), "w").write(open(os.path.join(VERIF, "ocaml", "dune")).read())
    open(os.path.join(OCAML_BUILD, "dune-project"), "w").write("(lang dune 2.9)\n")
    rc, out, _ = run(["dune", "build", "--profile", "release", "./main.exe"], cwd=OCAML_BUILD, timeout=1800)
    if rc != 0:
        raise BrokenTie("driver-build", out[-4000:])
    return time.time() - t0


def run_driver(area, seed, count, extra=(), shards=None, timeout=3000):
    """Runs `count` cases split over shards; returns the merged result dict."""
    shards = shards or NCPU
    shards = max(1, min(shards, count if count > 0 else 1))
    per = count // shards
    procs = []
    for i in range(shards):
        n = per + (1 if i < count % shards else 0)
        extra_i = list(extra) if i == 0 else [e for e in extra if not e.startswith("/") or "corpus" not in e]
        cmd = [DRIVER_BIN, area, str(seed * 1000 + i), str(n), HARNESS_BIN] + extra_i
        procs.append((cmd, subprocess.Popen(cmd, stdout=subprocess.PIPE, stderr=subprocess.PIPE, text=True, env=ENV)))
    merged = {"cases": 0, "events": 0, "distinct_nontrivial": 0, "distribution": {}, "samples": [], "failures": [], "notes": []}
    for cmd, p in procs:
        try:
            out, err = p.communicate(timeout=timeout)
        except subprocess.TimeoutExpired:
            p.kill()
            raise BrokenTie("driver-timeout", " ".join(cmd))
        line = out.strip().split("\n")[-1] if out.strip() else ""
        try:
            d = json.loads(line)
        except Exception:
            raise BrokenTie("driver-crash", "%s\nstdout: %s\nstderr: %s" % (" ".join(cmd), out[-2000:], err[-2000:]))
        for k in ("cases", "events", "distinct_nontrivial"):
            merged[k] += d.get(k, 0)
        for k, v in d.get("distribution", {}).items():
            merged["distribution"][k] = merged["distribution"].get(k, 0) + v
        merged["samples"] += d.get("samples", [])[:2]
        merged["failures"] += d.get("failures", [])
        merged["notes"] += d.get("notes", [])
        for k, v in d.items():
            if k not in merged:
                merged[k] = v
    merged["samples"] = merged["samples"][:6]
    return merged


def load_known_findings():
    p = os.path.join(VERIF, "known_findings.json")
    if not os.path.exists(p):
        return []
    return json.load(open(p)).get("findings", [])


def write_replay(prop, seed, idx, content):
    os.makedirs(REPLAYS, exist_ok=True)
    path = os.path.join(REPLAYS, "%s-%s-%d.json" % (prop, seed, idx))
    json.dump(content, open(path, "w"), indent=1)
    return path


def write_evidence(prop, tier, seed, level, coverage, assumptions, wall, violations):
    os.makedirs(EVIDENCE, exist_ok=True)
    ev = {"property_id": prop, "tier": tier, "seed": seed, "level": level, "coverage": coverage,
          "assumptions": assumptions, "wall_s": round(wall, 2), "violations": violations}
    json.dump(ev, open(os.path.join(EVIDENCE, prop + ".json"), "w"), indent=1)
