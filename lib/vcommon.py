"""Shared machinery of ./check: builds (cargo harness, Coq, extraction + OCaml driver), the
proof audit (pinned statements, Print Assumptions, forbidden vernacular), running driver
shards, evidence / violation / known-finding reporting."""
import json, os, re, subprocess, sys, time, glob, hashlib

VERIF = os.path.dirname(os.path.dirname(os.path.abspath(__file__)))
COQ = os.path.join(VERIF, "coq")
BUILD = os.path.join(VERIF, "build")
OCAML_BUILD = os.path.join(BUILD, "ocaml")
HARNESS_DIR = os.path.join(VERIF, "harness")
HARNESS_BIN = os.path.join(BUILD, "target", "debug", "vharness")
# VERIF_REPO: the tree whose code is checked.  Default (and the only value the registered commands use): /repo.
# The seeded-change trials (lib/seed_try.sh) point it at a scratch worktree so that /repo itself stays untouched.
REPO = os.environ.get("VERIF_REPO", "/repo").rstrip("/") or "/repo"
ALT = REPO != "/repo"
if ALT:
    HARNESS_DIR = os.path.join(BUILD, "harness_alt")
    HARNESS_BIN = os.path.join(BUILD, "target_alt", "debug", "vharness")
DRIVER_BIN = os.path.join(OCAML_BUILD, "_build", "default", "main.exe")
EVIDENCE = os.path.join(VERIF, "evidence")
REPLAYS = os.path.join(EVIDENCE, "replays")
NCPU = min(16, os.cpu_count() or 4)

ENV = dict(os.environ)
ENV.update({"CARGO_NET_OFFLINE": "true", "CARGO_TARGET_DIR": os.path.join(BUILD, "target_alt" if ALT else "target")})

FORBIDDEN = re.compile(r"\b(Admitted|admit|Axiom|Axioms|Parameter|Parameters|Conjecture|Conjectures|Hypothesis|Hypotheses|Variable|Variables)\b|Unset\s+Guard|bypass_check|type-in-type|impredicative-set|Admit\s+Obligations|native_compute")
# Variable/Hypothesis are legal inside Sections only; files that use Sections are listed here
SECTION_FILES_OK = set()

ALLOWED_ASSUMPTIONS = {"Closed under the global context"}


def log(msg):
    print(msg, flush=True)


def run(cmd, cwd=None, timeout=None, env=None, capture=True):
    t0 = time.time()
    p = subprocess.run(cmd, cwd=cwd, env=env or ENV, timeout=timeout, shell=isinstance(cmd, str),
                       stdout=subprocess.PIPE if capture else None, stderr=subprocess.STDOUT if capture else None, text=True)
    return p.returncode, (p.stdout or ""), time.time() - t0


class BrokenTie(Exception):
    """A build / proof / correspondence step failed in a way that is not a concrete failing input."""
    def __init__(self, what, detail):
        super().__init__(what)
        self.what = what
        self.detail = detail


def build_harness():
    os.makedirs(BUILD, exist_ok=True)
    if ALT:
        # a copy of the harness crate whose dependencies point at the scratch tree
        src = os.path.join(VERIF, "harness")
        os.makedirs(os.path.join(HARNESS_DIR, "src"), exist_ok=True)
        for f in glob.glob(os.path.join(src, "src", "*.rs")):
            dst = os.path.join(HARNESS_DIR, "src", os.path.basename(f))
            if not os.path.exists(dst) or open(dst).read() != open(f).read():
                open(dst, "w").write(open(f).read())
        toml = open(os.path.join(src, "Cargo.toml")).read().replace('"/repo/', '"%s/' % REPO)
        tp = os.path.join(HARNESS_DIR, "Cargo.toml")
        if not os.path.exists(tp) or open(tp).read() != toml:
            open(tp, "w").write(toml)
    lock_src = os.path.join(REPO, "Cargo.lock")
    lock_dst = os.path.join(HARNESS_DIR, "Cargo.lock")
    if os.path.exists(lock_src):
        try:
            if not os.path.exists(lock_dst):
                open(lock_dst, "w").write(open(lock_src).read())
        except OSError:
            pass
    rc, out, dt = run(["cargo", "build", "--offline", "--quiet"], cwd=HARNESS_DIR, timeout=1800)
    if rc != 0:
        # a stale lock file is the usual reason: regenerate from /repo's and retry once
        try:
            open(lock_dst, "w").write(open(lock_src).read())
        except OSError:
            pass
        rc, out, dt = run(["cargo", "build", "--offline", "--quiet"], cwd=HARNESS_DIR, timeout=1800)
    if rc != 0:
        raise BrokenTie("harness-build", "cargo build of the harness against /repo (feature verif) failed:\n" + out[-4000:])
    return dt


def coq_sources():
    lines = open(os.path.join(COQ, "_CoqProject")).read().split("\n")
    return [l.strip() for l in lines if l.strip().endswith(".v")]


def gen_coqproject():
    """_CoqProject lists every .v under coq/ except *_audit.v and Extract/ (generated)."""
    files = []
    for f in sorted(glob.glob(os.path.join(COQ, "**", "*.v"), recursive=True)):
        rel = os.path.relpath(f, COQ)
        if rel.endswith("_audit.v") or rel.startswith("Extract/"):
            continue
        files.append(rel)
    txt = "-Q . GM\n-arg -w -arg -notation-overridden,-deprecated-hint-without-locality,-deprecated-instance-without-locality,-deprecated-syntactic-definition\n" + "\n".join(files) + "\n"
    proj = os.path.join(COQ, "_CoqProject")
    if not os.path.exists(proj) or open(proj).read() != txt:
        open(proj, "w").write(txt)


def gen_extract_v():
    """Extract/Extract.v assembled from Extract/roots/*.txt."""
    imports, roots = [], []
    for f in sorted(glob.glob(os.path.join(COQ, "Extract", "roots", "*.txt"))):
        for line in open(f):
            line = line.split("#")[0].strip()
            if line.startswith("import "):
                m = line[7:].strip()
                if m not in imports: imports.append(m)
            elif line.startswith("root "):
                r = line[5:].strip()
                if r not in roots: roots.append(r)
    txt = ("(* GENERATED by lib/vcommon.py from Extract/roots/*.txt — do not edit.\n"
           "   ExtrOcamlBasic only (Extract Inductive for bool, option, unit, list, prod, sumbool, sumor);\n"
           "   no Extract Constant; N / positive / Z / nat stay the extracted Coq datatypes. *)\n"
           "From Coq Require Import ExtrOcamlBasic.\n"
           "From GM Require Import " + " ".join(imports) + ".\n"
           "Separate Extraction\n  " + "\n  ".join(roots) + ".\n")
    p = os.path.join(COQ, "Extract", "Extract.v")
    if not os.path.exists(p) or open(p).read() != txt:
        open(p, "w").write(txt)


def gen_main_ml(exclude=()):
    areas = sorted(os.path.basename(f)[5:-3] for f in glob.glob(os.path.join(VERIF, "ocaml", "driver", "area_*.ml")))
    areas = [a for a in areas if a not in exclude]
    txt = "(* GENERATED: vdriver <area> <seed> <count> <harness-path> [extra...] *)\nlet () =\n  let a = Sys.argv in\n"
    txt += "  if Array.length a < 5 then (prerr_endline \"usage: vdriver <area> <seed> <count> <harness> [extra]\"; exit 2);\n"
    txt += "  let seed = int_of_string a.(2) and count = int_of_string a.(3) and harness = a.(4) in\n"
    txt += "  let extra = Array.to_list (Array.sub a 5 (Array.length a - 5)) in\n  match a.(1) with\n"
    for ar in areas:
        txt += "  | \"%s\" -> Area_%s.main seed count harness extra\n" % (ar, ar)
    txt += "  | other -> prerr_endline (\"unknown area \" ^ other); exit 2\n"
    return txt


def ensure_coq_makefile():
    gen_coqproject()
    gen_extract_v()
    mk = os.path.join(COQ, "Makefile")
    proj = os.path.join(COQ, "_CoqProject")
    if not os.path.exists(mk) or os.path.getmtime(mk) < os.path.getmtime(proj):
        rc, out, _ = run(["coq_makefile", "-f", "_CoqProject", "-o", "Makefile"], cwd=COQ, timeout=120)
        if rc != 0:
            raise BrokenTie("coq-makefile", out)


def coq_make(targets, timeout=3000):
    ensure_coq_makefile()
    rc, out, dt = run(["make", "-j%d" % NCPU] + targets, cwd=COQ, timeout=timeout)
    if rc != 0:
        raise BrokenTie("coq-proof", "make %s failed — a proof obligation or model file no longer checks:\n%s" % (" ".join(targets), out[-6000:]))
    return dt


def coq_deps(vfile):
    """Transitive GM-project dependencies of a .v file (via coqdep), as relative paths."""
    seen = set()
    todo = [vfile]
    while todo:
        f = todo.pop()
        if f in seen:
            continue
        seen.add(f)
        try:
            txt = open(os.path.join(COQ, f)).read()
        except OSError:
            continue
        for m in re.finditer(r"From\s+GM\s+Require\s+(?:Import\s+|Export\s+)?((?:\w+(?:\.\w+)*\s+)*\w+(?:\.\w+)*)\s*\.(?:\s|$)", txt):
            for name in m.group(1).split():
                path = name.replace(".", "/") + ".v"
                if os.path.exists(os.path.join(COQ, path)):
                    todo.append(path)
    return sorted(seen)


def count_obligations(vfiles):
    n = 0
    for f in vfiles:
        txt = open(os.path.join(COQ, f)).read()
        txt = re.sub(r"\(\*.*?\*\)", "", txt, flags=re.S)
        n += len(re.findall(r"^\s*(?:Local\s+|Global\s+|#\[[^\]]*\]\s*)?(Theorem|Lemma|Corollary|Example|Fact|Remark|Proposition)\b", txt, flags=re.M))
    return n


def scan_forbidden(only=None):
    """Forbidden vernacular in the development; `only` restricts the scan to a list of files (a property's
    dependency cone: an unfinished proof in an unrelated area must not fail this property's check)."""
    bad = []
    for f in glob.glob(os.path.join(COQ, "**", "*.v"), recursive=True):
        rel = os.path.relpath(f, COQ)
        if only is not None and rel not in only:
            continue
        txt = open(f).read()
        txt_nc = re.sub(r"\(\*.*?\*\)", "", txt, flags=re.S)
        in_section = 0
        for i, line in enumerate(txt_nc.split("\n"), 1):
            if re.match(r"\s*Section\b", line):
                in_section += 1
            if re.match(r"\s*End\b", line) and in_section > 0:
                in_section -= 1
            m = FORBIDDEN.search(line)
            if m:
                word = m.group(0)
                if word in ("Variable", "Variables", "Hypothesis", "Hypotheses") and in_section > 0:
                    continue
                bad.append("%s:%d: %s" % (rel, i, line.strip()[:120]))
    return bad


def audit(prop):
    """Compile Properties/<prop>_audit.v: pinned statements (Check name : stmt) and Print Assumptions."""
    audit_file = os.path.join("Properties", prop + "_audit.v")
    if not os.path.exists(os.path.join(COQ, audit_file)):
        raise BrokenTie("audit-missing", audit_file)
    rc, out, dt = run(["coqc", "-Q", ".", "GM", "-w", "-notation-overridden", audit_file], cwd=COQ, timeout=900)
    if rc != 0:
        raise BrokenTie("coq-audit", "pinned statement check failed (a property theorem was changed or removed):\n" + out[-4000:])
    # parse Print Assumptions outputs
    n_print = len(re.findall(r"^\s*Print Assumptions\b", open(os.path.join(COQ, audit_file)).read(), flags=re.M))
    closed = out.count("Closed under the global context")
    axioms = []
    if "Axioms:" in out:
        for block in out.split("Axioms:")[1:]:
            for line in block.split("\n")[1:]:
                if not line.strip() or not (line.startswith(" ") or ":" in line):
                    break
                m = re.match(r"^(\S+)\s*:", line)
                if m:
                    axioms.append(m.group(1))
    cone = set(coq_deps(os.path.join("Properties", prop + ".v"))) | {audit_file}
    bad = scan_forbidden(only=cone)
    if bad:
        raise BrokenTie("forbidden-vernacular", "\n".join(bad[:50]))
    elsewhere = [b for b in scan_forbidden() if b.split(":")[0] not in cone]
    return {"print_assumptions": n_print, "closed": closed, "axioms": sorted(set(axioms)), "audit_s": dt,
            "forbidden_elsewhere": elsewhere[:20]}


def coqchk(prop, allowed_axioms=()):
    """coqchk -o on the compiled property module (thorough tier): the independent checker must accept every file of
    the cone and report no axiom outside the allow-list, no type-in-type, no assumed positivity / guard."""
    rc, out, dt = run(["coqchk", "-o", "-silent", "-Q", ".", "GM", "GM.Properties." + prop], cwd=COQ, timeout=3600)
    if rc != 0:
        raise BrokenTie("coqchk", out[-3000:])
    summary = out[out.find("CONTEXT SUMMARY"):] if "CONTEXT SUMMARY" in out else out[-1500:]
    sections = {}
    for m in re.finditer(r"\* ([^:\n]+):\s*(.*?)(?=\n\* |\Z)", summary, flags=re.S):
        sections[m.group(1).strip()] = " ".join(m.group(2).split())
    bad = []
    for k, v in sections.items():
        if k.startswith("Theory"):
            continue
        if v != "<none>":
            if k.startswith("Axioms") and all(any(x in tok for x in allowed_axioms) for tok in v.split() if "." in tok) and allowed_axioms:
                continue
            bad.append("%s: %s" % (k, v))
    if bad:
        raise BrokenTie("coqchk", "; ".join(bad))
    return {"s": dt, "summary": sections}


def build_driver(force=False, needed_areas=None):
    """Extraction (coqc Extract/Extract.v, run inside build/ocaml) + dune build of the driver."""
    os.makedirs(OCAML_BUILD, exist_ok=True)
    ensure_coq_makefile()
    srcs = [os.path.join(COQ, f) for f in coq_sources()] + glob.glob(os.path.join(VERIF, "ocaml", "driver", "*.ml")) + \
           glob.glob(os.path.join(COQ, "Extract", "roots", "*.txt")) + [os.path.join(VERIF, "ocaml", "dune")]
    newest = max(os.path.getmtime(f) for f in srcs if os.path.exists(f))
    if not force and os.path.exists(DRIVER_BIN) and os.path.getmtime(DRIVER_BIN) >= newest:
        return 0.0
    t0 = time.time()
    # the models must be compiled first
    deps = [d[:-2] + ".vo" for d in coq_deps("Extract/Extract.v") if d != "Extract/Extract.v"]
    coq_make(deps)
    for f in glob.glob(os.path.join(OCAML_BUILD, "*.ml")) + glob.glob(os.path.join(OCAML_BUILD, "*.mli")):
        os.remove(f)
    rc, out, _ = run(["coqc", "-Q", COQ, "GM", "-w", "-all", os.path.join(COQ, "Extract", "Extract.v")], cwd=OCAML_BUILD, timeout=900)
    if rc != 0:
        raise BrokenTie("extraction", out[-4000:])
    for f in glob.glob(os.path.join(VERIF, "ocaml", "driver", "*.ml")):
        open(os.path.join(OCAML_BUILD, os.path.basename(f)), "w").write(open(f).read())
    open(os.path.join(OCAML_BUILD, "main.ml"), "w").write(gen_main_ml())
    open(os.path.join(OCAML_BUILD, "dune"), "w").write(open(os.path.join(VERIF, "ocaml", "dune")).read())
    open(os.path.join(OCAML_BUILD, "dune-project"), "w").write("(lang dune 2.9)\n")
    excluded = []
    for _attempt in range(6):
        rc, out, _ = run(["dune", "build", "--profile", "release", "./main.exe"], cwd=OCAML_BUILD, timeout=1800)
        if rc == 0:
            break
        # an area that does not build (another property's driver, e.g. mid-edit) must not block this check:
        # drop it from the binary unless this check needs it
        m = re.search(r'File "(area_(\w+)\.ml)"', out)
        if not m or (needed_areas is not None and m.group(2) in needed_areas) or needed_areas is None:
            raise BrokenTie("driver-build", out[-4000:])
        excluded.append(m.group(2))
        try:
            os.remove(os.path.join(OCAML_BUILD, m.group(1)))
        except OSError:
            pass
        open(os.path.join(OCAML_BUILD, "main.ml"), "w").write(gen_main_ml(exclude=excluded))
    else:
        raise BrokenTie("driver-build", out[-4000:])
    if excluded:
        # make the next check rebuild (the excluded area may be needed then)
        os.utime(os.path.join(VERIF, "ocaml", "dune"), None)
    return time.time() - t0


def run_driver(area, seed, count, extra=(), shards=None, timeout=3000):
    """Runs `count` cases split over shards; returns the merged result dict."""
    shards = shards or NCPU
    shards = max(1, min(shards, count if count > 0 else 1))
    per = count // shards
    procs = []
    for i in range(shards):
        n = per + (1 if i < count % shards else 0)
        extra_i = list(extra) if i == 0 else [e for e in extra if not e.startswith("/") or "corpus" not in e]
        cmd = [DRIVER_BIN, area, str(seed * 1000 + i), str(n), HARNESS_BIN] + extra_i
        procs.append((cmd, subprocess.Popen(cmd, stdout=subprocess.PIPE, stderr=subprocess.PIPE, text=True, env=ENV)))
    merged = {"cases": 0, "events": 0, "distinct_nontrivial": 0, "distribution": {}, "samples": [], "failures": [], "notes": []}
    for cmd, p in procs:
        try:
            out, err = p.communicate(timeout=timeout)
        except subprocess.TimeoutExpired:
            p.kill()
            raise BrokenTie("driver-timeout", " ".join(cmd))
        line = out.strip().split("\n")[-1] if out.strip() else ""
        try:
            d = json.loads(line)
        except Exception:
            raise BrokenTie("driver-crash", "%s\nstdout: %s\nstderr: %s" % (" ".join(cmd), out[-2000:], err[-2000:]))
        for k in ("cases", "events", "distinct_nontrivial"):
            merged[k] += d.get(k, 0)
        for k, v in d.get("distribution", {}).items():
            merged["distribution"][k] = merged["distribution"].get(k, 0) + v
        merged["samples"] += d.get("samples", [])[:2]
        merged["failures"] += d.get("failures", [])
        merged["notes"] += d.get("notes", [])
        for k, v in d.items():
            if k not in merged:
                merged[k] = v
    merged["samples"] = merged["samples"][:6]
    return merged


def load_known_findings():
    p = os.path.join(VERIF, "known_findings.json")
    if not os.path.exists(p):
        return []
    return json.load(open(p)).get("findings", [])


def write_replay(prop, seed, idx, content):
    os.makedirs(REPLAYS, exist_ok=True)
    path = os.path.join(REPLAYS, "%s-%s-%d.json" % (prop, seed, idx))
    json.dump(content, open(path, "w"), indent=1)
    return path


def write_evidence(prop, tier, seed, level, coverage, assumptions, wall, violations):
    os.makedirs(EVIDENCE, exist_ok=True)
    ev = {"property_id": prop, "tier": tier, "seed": seed, "level": level, "coverage": coverage,
          "assumptions": assumptions, "wall_s": round(wall, 2), "violations": violations}
    json.dump(ev, open(os.path.join(EVIDENCE, prop + ".json"), "w"), indent=1)
