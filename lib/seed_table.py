#!/usr/bin/env python3
"""seed_table.py: renders seeded/*/meta.json into the table of DESIGN.md section 0.5 (between the SEEDROWS markers)."""
import json, glob, os, re
def short(t, n):
    t = " ".join(str(t).split()).replace("|", "/")
    return t if len(t) <= n else t[:n - 1].rsplit(" ", 1)[0] + " …"
rows = []
for d in sorted(glob.glob("/verif/seeded/*/meta.json")):
    m = json.load(open(d)); sid = os.path.basename(os.path.dirname(d))
    det = m.get("detected_by") or {}
    how = det.get("result", "?")
    if det.get("note"): how += " — " + det["note"]
    rows.append("| %s | %s | %s | %s | %s |" % (sid, short(m.get("summary", ""), 260), short(m.get("needs_to_manifest", m.get("needs", "")), 240), short(det.get("checks", "?"), 80), short(how, 420)))
p = "/verif/DESIGN.md"; s = open(p).read()
block = "<!--SEEDROWS-->\n| seed | change (one line) | needs to manifest | caught by | how |\n|---|---|---|---|---|\n" + "\n".join(rows) + "\n<!--/SEEDROWS-->"
if "<!--/SEEDROWS-->" in s:
    s = re.sub(r"<!--SEEDROWS-->.*?<!--/SEEDROWS-->", lambda _: block, s, flags=re.S)
else:
    s = s.replace("<!--SEEDROWS-->", block)
open(p, "w").write(s); print(len(rows), "rows")
