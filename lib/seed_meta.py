#!/usr/bin/env python3
"""seed_meta.py: merges the seeding agent's meta.json, my confirmation log and the detection record into seeded/<id>/meta.json"""
import json, os, sys
DETECT = {
 "C19": {"checks": "./check C19", "result": "VIOLATION with failing input (wait sequence restarts from the base although no connection outlived the stability period)",
         "note": "MISSED by the first version of the C19 check (the generator never let real time pass between a short connection and a later attempt without CONNACK); the generator now inserts the pattern [short connection; real sleep beyond the stability period; attempt without CONNACK] and the corpus holds one such case"},
 "C14": {"checks": "./check C14 (also C08 via the ping fields)", "result": "VIOLATION with failing input: monitor 1401 (a ping deadline armed at time now is not now + min(ping timeout, K*500 ms)) and lock-step difference in pingto", "note": "the same defect as D12, reintroduced"},
 "C09": {"checks": "./check C09", "result": "VIOLATION with failing input: monitor 901 (pending publishes exceed the Receive Maximum of the last CONNACK) + lock-step differences", "note": ""},
 "C04": {"checks": "./check C04, ./check C01", "result": "C01: VIOLATION with failing input — monitor 104 (an incomplete operation is tracked nowhere: silently dropped); C04: VIOLATION (lock-step difference in rq/uq/out; the dropped-operation monitor is also attributed to C04)",
         "note": "the first version reported it for C04 only as no-failing-input-found; the tracking monitor (never silently dropped) was added because of this seed"},
 "C02": {"checks": "./check C02", "result": "VIOLATION with failing input: the independent specification decoder rejects the CONNECT (remaining length off by one) and the model's bytes differ", "note": ""},
 "C03": {"checks": "./check C03", "result": "VIOLATION with failing input: two chunkings of the same hostile stream give different verdicts (over-long remaining-length field split after its 4th byte)", "note": ""},
 "C07": {"checks": "./check C07", "result": "VIOLATION with failing input: CONNACK accepted while the CONNECT is only partially written (monitors 701/702 + lock-step difference)", "note": "re-introduces half of D9"},
 "C11": {"checks": "./check C03 (and the engine area of C11: monitor 1101)", "result": "C03: VIOLATION with failing input (decoder panics on a string length overshooting the packet by 1-2 bytes); engine area: panic monitor 1101 hit by the structured-mutation hostile profile",
         "note": "the engine generator's hostile profile only sent random garbage at first and missed it; structured mutations of valid packets (length-prefix edits, truncations with fixed-up remaining length) were added because of this seed"},
 "C16": {"checks": "./check C16", "result": "VIOLATION with failing input: a shared filter with a wildcard passes send-time validation although the server announced wildcard subscriptions unavailable (conforms = false)", "note": ""},
 "C20": {"checks": "./check C20", "result": "VIOLATION with failing input: 3.1.1 defaults overwrite a user-set retry limit / drain policy when only one of the two is set", "note": ""},
 "C01": {"checks": "./check C01", "result": "VIOLATION with failing input: monitor 102 (a subscribe completed successfully by a SUBACK that does not hold one reason code per requested entry) + lock-step difference (outcome, st, done)", "note": ""},
 "C05": {"checks": "./check C05", "result": "VIOLATION with failing input: monitor 502 (a QoS 2 publish whose id was received and not yet released is surfaced a second time after a session-resuming reconnect) + lock-step difference in q2in",
         "note": "first run: only no-failing-input-found (q2in differed; the surfacing monitor existed only as a stub and was not wired). Monitor 502 (exactly-once surfacing, in wire order, tolerant of calls that returned an error) was written because of this seed; the simulated broker now keeps its inbound QoS 2 session state across session-resuming reconnects and retransmits unreleased publishes"},
 "C06": {"checks": "./check C06 (also C04 monitor 401, C10 monitor 1001)", "result": "VIOLATION with failing input: monitor 602 (a DUP publish carries a packet id different from the one its operation was transmitted with in this session)",
         "note": "first run: only no-failing-input-found (rq/uq differed at the close; the history ended before the wrong id reached the wire). Two strengthenings because of this seed: (1) after a divergence the driver now searches for a failing input by draining the diverged state through a well-behaved broker (reconnect with session present, acknowledge everything, close, reconnect, drain again) so that a state difference reaches the wire; (2) monitor 602 states the retransmission-identifier clause of C06 directly"},
 "C08": {"checks": "./check C08", "result": "VIOLATION with failing input: monitor 801 (the engine reports no service time although the high-priority queue holds sendable work) + lock-step difference in nst", "note": ""},
 "C10": {"checks": "./check C10", "result": "VIOLATION with failing input: monitor 1001 (a user-queue operation is transmitted while a retransmission is still waiting) + lock-step differences", "note": ""},
 "C12": {"checks": "./check C12", "result": "VIOLATION with failing input: the event-grammar monitor of the client area rejects the stream Attempt, Success, Disconnection, Attempt, Disconnection (a handshake that fails after an earlier successful connection is reported as Disconnection) + lock-step difference with Client/Impl.v", "note": ""},
 "C13": {"checks": "./check C13", "result": "VIOLATION with failing input: bytes read through the websocket wrapper differ from the concatenated message payloads when a message is longer than the space left in the read buffer", "note": ""},
 "C15": {"checks": "./check C15", "result": "VIOLATION with failing input: monitor 1502 (an operation of a kind the policy rejects, submitted while the CONNACK is awaited, is queued instead of failed) + lock-step differences",
         "note": "first run: only no-failing-input-found (85% of the histories diverged but monitor 1501 only judged failures that DID happen and the close-time state). Monitor 1502 (submission-time clause of C15, using the protocol state before the call) was written because of this seed"},
 "C17": {"checks": "./check C17", "result": "VIOLATION with failing input: resolver area — the LRU resolver model and implementation disagree and the server-side table reconstruction gives a different topic (LRU capacity larger than the server's Topic Alias Maximum, return to an evicted topic); engine area monitor 1701", "note": ""},
 "C18": {"checks": "./check C18", "result": "VIOLATION with failing input: monitor 1803 (an operation whose ack deadline has passed is still incomplete after a successful service call) + lock-step difference in nst / tmo",
         "note": "first run: only no-failing-input-found: monitor 1801 stated 'never earlier' and 'never without a timeout' but not 'not later'. Monitor 1803 (mon_c18_late) was written because of this seed"},
 "C01b": {"checks": "./check C01 (also C04)", "result": "VIOLATION with failing input: monitor 104 (after the second connection loss the retransmitted publish is an incomplete operation tracked in no queue and no pending table) + lock-step difference in rq", "note": ""},
 "C02b": {"checks": "./check C16, ./check C02", "result": "C16: VIOLATION with failing input (a packet accepted by validation violates RUserPropertyValueLen); C02: VIOLATION with failing input, signature client-accepts-malformed:other (accepted by both validation stages, the emitted bytes are rejected by the specification decoder)",
          "note": "first run: C16 reported it, C02 did not (its property monitor only judged packets valid for the wire specification). The client-path monitor of the C02 area was added because of this seed; on the unchanged tree it found D28"},
 "C03b": {"checks": "./check C03, ./check C11", "result": "both: VIOLATION with failing input, signature panic (string length prefix overshooting its region by 1-2 bytes)", "note": "same slip as seed C11, found independently; written before the D27 fix touched the same function, applied three-way"},
 "C04b": {"checks": "./check C04", "result": "VIOLATION with failing input: monitor 401 (after a CONNACK without session a restarted QoS 1/2 publish goes out with DUP=1) + lock-step difference in out", "note": ""},
 "C07b": {"checks": "./check C07", "result": "VIOLATION with failing input: monitor 701 (a PUBREL is written after the CONNECT and before any CONNACK on the next connection) + lock-step differences (hq)", "note": ""},
 "C08b": {"checks": "./check C08 (also C18)", "result": "VIOLATION with failing input: monitor 803 (the reported next service time is later than the ack deadline of a still incomplete operation) + lock-step difference in nst", "note": "same derive-ordering slip as seed C18, found independently for C08; monitor 803 had been added from my own review shortly before"},
 "C09b": {"checks": "./check C09", "result": "VIOLATION with failing input: monitor 902 (after a reconnect under the one-at-a-time policy more than one acknowledged operation is outstanding while interrupted operations are unresolved) + lock-step difference in ss", "note": ""},
 "C12b": {"checks": "./check C12", "result": "VIOLATION with failing input: engine-fact check of the client area (closing a connection while the DISCONNECT is encoded but unflushed returns an error: the event loop would exit) — the D14 regression signature", "note": ""},
 "C14b": {"checks": "./check C14", "result": "VIOLATION with failing input: monitor 1402 (a PINGRESP deadline outlives its connection: after a successful close the snapshot still holds a ping deadline; with K = 0 a later service fails with the keep-alive error)",
          "note": "first run: only no-failing-input-found (pingto differed): monitor 1401 accepted a keep-alive failure at or after ANY armed deadline, including one armed on an earlier connection. Monitor 1402 now also states that no deadline survives a close and that K = 0 never produces a keep-alive failure"},
 "C16b": {"checks": "./check C16 (engine area)", "result": "VIOLATION with failing input: monitor 1601 (a PUBLISH establishing an alias binding is written although its wire size exceeds the Maximum Packet Size of the CONNACK)",
          "note": "first run: MISSED by ./check C16 (the validation functions themselves were intact; the seed changed which packet form the engine hands them). C17 reported a lock-step difference only. The engine area and the wire monitor 1601 (mon_c16_wire) were added to C16 because of this seed; the simulated broker now announces capability restrictions"},
}
sid = sys.argv[1]
d = "/verif/seeded/%s" % sid
meta = json.load(open(os.path.join(d, "meta.json")))
confirm = ""
root = "/tmp/seed2/%s" % sid[:-1] if sid.endswith("b") else "/tmp/seed/%s" % sid
p = root + "/CONFIRM.txt"
if os.path.exists(p):
    confirm = "\n".join(l for l in open(p).read().split("\n") if "NOT PASSING" not in l or "longtests" in l)
    if os.path.exists(root + "/CONFIRM2.txt"):
        confirm += "\n-- demonstration re-run with its source file installed as RUN.txt says --\n" + open(root + "/CONFIRM2.txt").read()
meta["breaks_property"] = meta.get("property", sid)
meta["needs_to_manifest"] = meta.get("needs", "")
meta["confirmed_by_main_builder"] = confirm.strip().split("\n") if confirm else meta.get("confirmed_by_main_builder", "pending")
meta["what_was_run"] = ["scratch worktree %s (git worktree of /repo HEAD): demo without the patch passes, with the patch fails, cargo test --workspace with the patch keeps all 669 baseline tests green (lib/baseline_compare.py)" % root,
                        "git -C /repo apply seeded/%s/patch.diff; %s; git -C /repo apply -R ... (lib/seed_try.sh)" % (sid, DETECT.get(sid, {}).get("checks", "?"))]
meta["detected_by"] = DETECT.get(sid, {})
json.dump(meta, open(os.path.join(d, "meta.json"), "w"), indent=1)
print("meta", sid)
