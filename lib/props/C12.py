"""C12 — lifecycle: well-formed event stream; stop always stops; the loop never dies."""

PROP = {'areas': [{'area': 'c12', 'corpus': ['corpus/C12/d13.txt', 'corpus/C12/d10b.txt'], 'quick': 3000, 'thorough': 300000},
                  {'area': 'c12r', 'corpus': ['corpus/C12/real.txt'], 'quick': 48, 'thorough': 1600}],
 'coq_target': 'Properties/C12.vo',
 'modelled': 'client/mod.rs MqttClientImpl 563-1037 (handle_incoming_operation, dispatch_packet_events, handle_incoming_bytes / write_completion / service, '
             'compute_optional_state_transition, transition_to_state with both short-circuits, event emission, last_connack / last_disconnect / last_error, '
             'apply_error); the event loops client/asynchronous/tokio/mod.rs 49-320 and client/synchronous/threaded/mod.rs 65-395 as ONE transition system over '
             'abstract driver events with a flag for their differences (Client/Driver.v)',
 'not_modelled': 'the protocol engine is the engine MODEL (Engine/Instance.v i_step) in the composed theorems - the 8 engine facts are proved for it on every '
                 'well-formed engine state and stay evaluated on the real engine on every run; real tokio scheduling / select! branch choice / thread interleavings / Instant::now() are quantified over as event orders and time '
                 'arguments in the model and only SAMPLED on the real loops (area c12r); listeners and callback spawning; stream shutdown',
 'rule': 'c12: (a) the complete 5x5x3 compute_optional_state_transition table is regenerated from the compiled implementation and compared cell by cell with '
         'the model and the specification (exhaustive); (b) histories of 6..66 abstract driver events (operation start/stop/stop-with-DISCONNECT/close/publish, '
         'connect ok/fail/timeout, read CONNACK ok/fail, PUBLISH, DISCONNECT, PINGRESP, malformed, EOF, error, service, write k/0/would-block/interrupted/error, '
         'flush ok/error, reconnect timer, iteration end) for both drivers, biased by the current state, executed on the REAL MqttClientImpl by a simulated '
         'driver over the facade and on the extracted Driver.dstep with the real engine\'s answers as oracle; compared after every event (states, stop shape, '
         'bookkeeping, engine tag, loop status, emitted events); monitors on the implementation: extracted grammar_ok, no failing / panicking transition, engine '
         'facts, settling phase for pending stop requests. c12r: scripted scenarios on REAL tokio and threaded clients over in-memory transports (sampled '
         'schedules): extracted grammar monitor, stop / close / restart expectations. distinct = distinct event histories; non-trivial = at least 4 events'}

META = {'design_ref': 'DESIGN.md section 7 / C12, Appendix D',
 'level_note': 'Proved for the MODEL of both loops over ALL event orders; the tie to the real loops is (i) exact lock-step of MqttClientImpl through the facade, '
               '(ii) SAMPLED runs of the real tokio / threaded clients on scripted transports: scheduler fairness, select! branch choice, thread interleavings and '
               'OS write semantics are quantified over in the model only. The engine hypothesis of the abstract theorems is discharged for the engine model '
               '(C12_engine_model_facts, C12_composed_*); on the real engine the facts are checked on every observed engine call. D13 (stop-with-DISCONNECT during the handshake never stopped) and D10b (huge connect_timeout panicked the loop) were found here and are fixed (d52fbbc, 8daf4ff); their witnesses run as regression cases.',
 'level_text': 'Coq theorems over models of MqttClientImpl and of both event loops: for every list of driver events (every schedule, transport behaviour, request '
               'timing) the emitted client events are a prefix of (Attempt (Failure | Success Disconnection))* with Stopped only between attempts '
               '(C12_event_grammar) and no transition_to_state fails (C12_loop_alive), given eight stated engine facts; compute_optional_state_transition equals '
               'its specification on all 75 inputs (C12_transition_table); stop / restart / close theorems (C12_stop_stops, C12_stop_waits_only_when_established, C12_restartable, '
               'C12_close_terminal); the former D13 / D10b counterexamples as regression theorems on the engine model '
               '(C12_stop_during_handshake_stops, C12_loop_alive_huge_timeout, C12_deadline_total). '
               'The engine hypothesis is DISCHARGED for the real engine model: the adapter Client/ImplEngine.v over Engine/Instance.v (i_init / i_step) satisfies all '
               'eight facts on every well-formed engine state (C12_engine_model_facts; invariant = the engine WF invariant WFX, from C07_protocol_state_table, '
               'the close spec of C11 and EngineProofs/ConnackEvents.v), so event grammar, loop alive, stop stops (both forms), wait only when established, '
               'restartable and close terminal hold for the COMPOSED model client + engine with no premise but environment bounds (ok_cfg: finite ping timeout; '
               'clock below 2^62 ms): C12_composed_event_grammar / _loop_alive / _stop_stops / _stop_stops_two_events / _stop_waits_only_when_established / '
               '_restartable / _close_terminal / _engine_wf, with an executable run C12_composed_run (CONNACK bytes from the reference encoder). What remains '
               'modelled rather than proved about the real code: the real scheduler, select! branch choices and threads (event orders are quantified over in the '
               'model and sampled on the real loops), and the engine model itself is tied to protocol.rs by the lock-step areas of C06-C11.',
 'technique': 'machine-checked proof in Coq (invariants by induction over driver-event lists; vm_compute witnesses on the engine model) + exhaustive table '
              'regeneration + lock-step correspondence of the extracted model with the implementation + sampled runs of the real drivers'}
