"""C04 — QoS 1/2 delivery protocol across reconnects and sessions."""

PROP = {'areas': [{'also': ['C01:monitor:104'],
            'area': 'engine',
            'corpus': ['corpus/engine/c04_qos2_three_connections.script',
                       'corpus/engine/c04_repeated_pubrec_two_pubrels.script',
                       'corpus/engine/d11_half_encoded_connect_service_time.script',
                       'corpus/engine/d12_keep_alive_one_second.script',
                       'corpus/engine/d14_close_with_queued_disconnect.script',
                       'corpus/engine/d21_slow_start_failed_attempt.script',
                       'corpus/engine/d6_ack_timeout_mid_pubrel.script',
                       'corpus/engine/d7_alias_after_failed_validation.script',
                       'corpus/engine/d9_connack_before_connect_flushed.script'],
            'extra': ['100'],
            'only_prop': 'C04',
            'quick': 12000,
            'thorough': 2000000,
            'tie_fields': ['out', 'done', 'ops', 'rq', 'uq', 'hq', 'ppub', 'cur']},
           {'area': 'c16',
            'corpus': ['corpus/C16/witnesses.txt'],
            'extra': ['table'],
            'only_sig': '^c16-sound:RDupOnFirstDelivery',
            'quick': 8000,
            'thorough': 400000,
            'tie_sig': '^$'}],
 'coq_target': 'Properties/C04.vo',
 'modelled': 'protocol.rs ProtocolState: handle_user_event, handle_network_event (opened / closed / incoming data / write completion), service '
             '(pending-connack / connected / pending-disconnect), get_next_service_timepoint, reset and every helper they call (operation table, three intake '
             'queues, current operation, pending tables, ack-timeout heap, packet-id allocation, slow start, keep-alive, session handling, all packet '
             'handlers), transcribed in coq/Engine/Model.v; instantiated in Engine/Instance.v with the codec (Codec/*), validation (Validate/Rules.v) and '
             'alias (Alias/*) models',
 'not_modelled': 'HashMap iteration order (completions of one step compared as a set; intake queues compared as multisets between a close and the next '
                 'CONNACK, where the code re-sorts them), VecDeque ring layout used by sort_operation_deque, BinaryHeap order among equal deadlines, Instant '
                 'arithmetic beyond 2^63 ms, logging; user callbacks are assumed not to panic',
 'rule': 'histories = engine configuration (protocol version x 4 offline policies x drain policy x retry limit x resolver x keep-alive / ping timeout / '
         'connect options, packet-id cursor preset near 65535 in 15%) x 100 abstract driver / broker actions drawn from one PRNG state (submit publish / '
         'subscribe / unsubscribe / disconnect with or without ack timeout, open, close, service with buffer capacities 4..4096, write completion, advance to '
         'the reported service time, broker answers by the reference codec: CONNACK with random limits and session flag, acks in / out of order, inbound '
         'publishes QoS 0/1/2 with aliases, PUBREL; hostile profile: unknown / duplicate / wrong-type acks, second CONNACK, server DISCONNECT, garbage; '
         'resets) — every concrete event is executed in lock-step on the implementation (facade Engine) and on the extracted Coq model and the complete '
         'response (outcome, state, completions, packet events, bytes, next service time, full bookkeeping snapshot) is compared (kind=tie, with the set of '
         "diverging fields); the extracted monitors of Engine/Monitors.v judge the IMPLEMENTATION's observation (kind=property, with the first observation at "
         'which the monitor turns false and the script that reproduces it). distinct = distinct command scripts; non-trivial = reached at least one '
         'interesting predicate (x_interesting_predicates_reached) || SUBMISSION PREMISE: the run-level theorems assume that a submitted PUBLISH has DUP = 0; '
         'the clients guarantee it by validate_packet_outbound, which the validation area checks against the real function on every run (a packet with DUP = 1 '
         'or a preset packet id accepted at submission is a failing input for this property).'}

META = {'design_ref': 'DESIGN.md section 7 / C04',
 'level_note': 'Trusted: Coq kernel; the tie (facade engine.rs, harness, OCaml driver incl. the generator); the reference codec used by the simulated broker '
               '(SpecDecodeC2S / SpecEncodeS2C); abstract component hypotheses of the engine theorems (no-panic of codec / validators / resolvers) are '
               'discharged in the codec / validation / alias developments or stated as premises.',
 'level_text': 'Coq theorems, each about EVERY state of the engine model for ONE call (no sampling; premises: the call does not panic, and where a packet id '
               'must identify its operation the simple pid_consistent, both implied by the engine invariant WF): acknowledgement handlers '
               '(C04_unknown_ack_rejected, C04_puback_needs_qos1, C04_pubcomp_needs_pubrel, C04_pubrec_success, C04_suback_needs_matching_subscribe; '
               'C04_puback_completes / C04_pubrec_failure_completes / C04_pubcomp_completes + C04_released_frees: exactly that operation completes with '
               'exactly that ack, its id leaves s_alloc / s_ppub / s_pnon, no queue changes, the timeout heap is cleaned lazily); connection close '
               '(C04_close_requeues: new resubmit queue = [seated DUP publish not awaiting an ack] ++ old queue ++ surviving pending publishes in id order, '
               'each with DUP:=1 and unchanged id / PUBREL slot / content, every other packet untouched; C04_close_failures: completions fired by a close are '
               'only ConnectionClosed / OfflineQueuePolicyFailed for a packet the policy table rejects / MaxInterruptedRetriesExceeded); session handling at '
               'CONNACK (C04_session_present_keeps: queues sorted, operations outside the user queue untouched, ids kept; C04_session_absent_restarts: '
               'policy-passing resubmits move to the user queue with DUP:=0, id unbound, PUBREL slot cleared, the rejected ones are failed with '
               'OfflineQueuePolicyFailed and exactly those, s_alloc and the inbound QoS 2 set emptied); frame theorem C04_dup_only_by_close (+ '
               'C04_first_binding_keeps_content, C04_same_packets_trans): every event other than EvClose and an EvData in PendingConnack leaves packet and '
               'bound id of every surviving operation unchanged except the first packet-id binding; encoder input (C04_seat_encodes_wire_packet: a seated '
               'operation is encoded as its PUBREL when the PUBREL slot is set, as its own packet otherwise; C04_seat_skips_completed: the id of a completed '
               'operation is dropped without encoding anything). For well-formed states / run level (all event histories, through the WF invariant): '
               'C04_wf_close_requeues, C04_wf_session_no_panic, C04_wf_session_present_keeps, C04_reachable_close_requeues. RUN LEVEL, the sequence of '
               'transmissions of ONE operation over a whole history (EngineProofs/DeliveryWire*.v, 3500 lines; premises: component invariants comps_ok, '
               'ok_cfg, ok_event, and ok_submit = submitted PUBLISH packets carry DUP=0, which the clients validation guarantees): the delivery log of a '
               'history lists every encoder construction WITH its operation id, every completed write, connection open / close / reset, the processed incoming '
               'packets (which CONNACK ran the session rules, which PUBREC set the PUBREL slot of which operation) and the submissions; '
               'C04_run_machine_accepts: for EVERY history and EVERY operation id the per-operation reference machine (the wire-level statement as a state '
               'machine: not-sent / seated / pending / interrupted / released / gone) accepts the log, and a state relation J is an invariant (proved through '
               'every engine function; intermediate states of the service loop and of the packet loop via WF + the placement invariant PL). Read off the '
               'accepted language, each for every history: C04_run_first_transmission (the first PUBLISH handed to the encoder for a submitted QoS 1/2 publish '
               'has DUP=0, an identifier in 1..65535 and the submitted content), C04_run_no_second_publish (between two PUBLISH constructions of an operation '
               'there is a connection close / open / reset: never twice within one connection), C04_run_pubrel_after_pubrec (after a processed PUBREC that set '
               'its PUBREL slot everything handed to the encoder for the operation is the PUBREL with the acknowledged identifier, on this and later '
               'connections, until a CONNACK without session), C04_run_retransmission (a DUP=1 PUBLISH: the CONNACK of the current connection reported session '
               'present, the PUBLISH was handed to the encoder with the SAME identifier and completely written on an EARLIER connection, same content), '
               'C04_run_restart (after a CONNACK without session the next packet handed to the encoder for the operation is its PUBLISH with DUP=0), '
               'C04_run_nothing_after_completion (once an operation id is in the completions of a step no later step hands a packet of it to the encoder; no '
               'premise at all); C04_instance_* = the same, closed, for the concrete engine; witnesses by computation C04_wire_qos2_example (QoS 2 across '
               'three connections), C04_wire_qos1_dup_example, C04_wire_pubrel_twice_example (a repeated PUBREC makes the PUBREL go out twice within ONE '
               'connection, so at-most-one-PUBREL-per-connection is false of the model: it is one per processed PUBREC, which the monitor mon_c04 also '
               'tolerates). Still NOT proved (partial): (1) the count bound on PUBREL constructions (at most one per processed PUBREC / resumed connection), '
               '(2) completeness of the handshake at run level (success only after PUBACK / PUBREC-then-PUBCOMP carrying the current identifier: only the '
               'one-step C04_*_completes theorems, plus - from the accepted machine - that a PUBREC sets the PUBREL slot only while the PUBLISH is pending and '
               'carries the identifier it was written with), (3) construction log -> bytes on the wire is C02_run_wire_stream, not restated here. The only '
               'premise about the operation in the run theorems is submitted i (dlog h) = its id was given to a submitted QoS 1/2 PUBLISH somewhere in the '
               'history; that the submission precedes everything handed to the encoder for it is PROVED (the machine rejects a submission after a '
               'construction). The extracted automaton mon_c04 keeps judging the implementation trace of every sampled history',
 'technique': 'machine-checked proof in Coq over the engine model + lock-step correspondence of the extracted model with the implementation + extracted '
              'monitors on the implementation trace'}
