"""C15 — offline-queue policy decides per operation kind what survives being offline."""

PROP = {'areas': [{'also': ['C01:monitor:104'],
            'area': 'engine',
            'corpus': ['corpus/engine/d11_half_encoded_connect_service_time.script',
                       'corpus/engine/d12_keep_alive_one_second.script',
                       'corpus/engine/d14_close_with_queued_disconnect.script',
                       'corpus/engine/d21_slow_start_failed_attempt.script',
                       'corpus/engine/d6_ack_timeout_mid_pubrel.script',
                       'corpus/engine/d7_alias_after_failed_validation.script',
                       'corpus/engine/d9_connack_before_connect_flushed.script'],
            'extra': ['100'],
            'only_prop': 'C15',
            'quick': 12000,
            'thorough': 2000000,
            'tie_fields': ['done', 'uq', 'rq', 'ops', 'out']}],
 'coq_target': 'Properties/C15.vo',
 'modelled': 'protocol.rs ProtocolState: handle_user_event, handle_network_event (opened / closed / incoming data / write completion), service '
             '(pending-connack / connected / pending-disconnect), get_next_service_timepoint, reset and every helper they call (operation table, three intake '
             'queues, current operation, pending tables, ack-timeout heap, packet-id allocation, slow start, keep-alive, session handling, all packet '
             'handlers), transcribed in coq/Engine/Model.v; instantiated in Engine/Instance.v with the codec (Codec/*), validation (Validate/Rules.v) and '
             'alias (Alias/*) models',
 'not_modelled': 'HashMap iteration order (completions of one step compared as a set; intake queues compared as multisets between a close and the next '
                 'CONNACK, where the code re-sorts them), VecDeque ring layout used by sort_operation_deque, BinaryHeap order among equal deadlines, Instant '
                 'arithmetic beyond 2^63 ms, logging; user callbacks are assumed not to panic',
 'rule': 'histories = engine configuration (protocol version x 4 offline policies x drain policy x retry limit x resolver x keep-alive / ping timeout / '
         'connect options, packet-id cursor preset near 65535 in 15%) x 100 abstract driver / broker actions drawn from one PRNG state (submit publish / '
         'subscribe / unsubscribe / disconnect with or without ack timeout, open, close, service with buffer capacities 4..4096, write completion, advance to '
         'the reported service time, broker answers by the reference codec: CONNACK with random limits and session flag, acks in / out of order, inbound '
         'publishes QoS 0/1/2 with aliases, PUBREL; hostile profile: unknown / duplicate / wrong-type acks, second CONNACK, server DISCONNECT, garbage; '
         'resets) — every concrete event is executed in lock-step on the implementation (facade Engine) and on the extracted Coq model and the complete '
         'response (outcome, state, completions, packet events, bytes, next service time, full bookkeeping snapshot) is compared (kind=tie, with the set of '
         "diverging fields); the extracted monitors of Engine/Monitors.v judge the IMPLEMENTATION's observation (kind=property, with the first observation at "
         'which the monitor turns false and the script that reproduces it). distinct = distinct command scripts; non-trivial = reached at least one '
         'interesting predicate (x_interesting_predicates_reached)'}

META = {'design_ref': 'DESIGN.md section 7 / C15',
 'level_note': 'Trusted: Coq kernel; the tie (facade engine.rs, harness, OCaml driver incl. the generator); the reference codec used by the simulated broker '
               '(SpecDecodeC2S / SpecEncodeS2C); abstract component hypotheses of the engine theorems (no-panic of codec / validators / resolvers) are '
               'discharged in the codec / validation / alias developments or stated as premises.',
 'level_text': 'Coq theorems: C15_table (passes_policy equals the documented meaning of the four policies for ALL packets), C15_other_kinds, submission while '
               'not connected fails exactly the rejected kinds with OfflineQueuePolicyFailed and enqueues the others, and over ALL runs an '
               'OfflineQueuePolicyFailed completion is only ever delivered to an operation of a rejected kind (see Properties/C15.v); the regenerated '
               'implementation table (POLICY command, 4 policies x kinds) is compared on every run by the engine area; "rejected operations are never sent '
               'later / preserved ones are sent after reconnection" is the monitor mon_c15 on the implementation trace. Monitors on the implementation trace: '
               'mon_c15 (an offline-policy failure only hits a kind the policy rejects; after a close every retained operation is of a preserved kind or an '
               'in-flight QoS>=1 publish awaiting resubmission) and mon_c15_submit (a submission made while the engine is not Connected — Disconnected, '
               'PendingConnack, PendingDisconnect, Halted — of a rejected kind is failed with the offline-policy error within the submitting call, and no '
               'other submission is). mon_c15_inflight: a QoS 1/2 publish completely transmitted in the current session is never failed with the '
               'offline-policy error unless a CONNACK of that very call reported the session gone (the mandated exception).',
 'technique': 'machine-checked proof in Coq over the engine model + lock-step correspondence of the extracted model with the implementation + extracted '
              'monitors on the implementation trace'}
