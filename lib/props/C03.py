"""C03 — inbound decoding is faithful, chunking-invariant and robust to hostile bytes:
configuration of ./check C03 and MANIFEST texts."""

PROP = {'areas': [{'area': 'c03',
            'corpus': ['corpus/C03/d1_unsuback_143.txt', 'corpus/C03/d27_nul_in_string.txt', 'corpus/C03/framing.txt', 'corpus/C03/packets.txt'],
            'quick': 70000, 'thorough': 7000000}],
 'coq_target': 'Properties/C03.vo',
 'modelled': 'decode.rs Decoder (decode_bytes, process_read_packet_type / _total_remaining_length / _packet_body, reset), decode_packet5/311, the three ack '
             'decode macros, decode_vli and every decode_* helper (370-678); mqtt/{connack,publish,puback,pubrec,pubrel,pubcomp,suback,unsuback,pingresp,'
             'disconnect,auth}.rs decode_*_packet5/311 and decode_*_properties; the non-test Unimplemented stubs of connect/subscribe/unsubscribe/pingreq; '
             'mqtt/mod.rs TryFrom<u8> of every reason-code enum, QualityOfService, PayloadFormatIndicator, convert_311_encoding_to_*',
 'not_modelled': "std::str::from_utf8 (modelled by Prim.utf8_ok = Unicode Table 3-7, exercised by the generators incl. boundary code points and malformed "
                 "sequences); Vec capacity / allocation; log output; u32 overflow of `remaining_length + 1 + scratch.len()` (impossible: < 2^28 + 5)",
 'rule': 'cases are drawn from one PRNG state in the ratio 2 valid : 5 malformed. valid = 1..4 structured server-to-client packets of every kind and both '
         'versions (every optional field toggled, string/binary/payload lengths from {0,1,127,128,16383,16384,65535} rarely + small random, multi-byte UTF-8 '
         'incl. boundary code points, 0..9 user properties, every reason code of the specification tables, random legal property orders, three compactness '
         'forms), encoded by the independent Coq specification encoder, concatenated and split by two random chunkings (whole, bytewise, splits inside fixed '
         'header / length prefix, empty reads, random); malformed = bit flips, truncations, remaining-length edits (+-1, random, non-minimal, 5 bytes, 2^28-1), '
         'random bytes, splices, raw property sections (duplicates, identifiers of other packets, bad booleans / QoS / UTF-8 / lengths), announced sizes above a '
         'small maximum, exact-fit maximum. Both chunkings go to Decoder::decode_bytes through the facade and to the extracted model; packets (text), verdict '
         'kind and failing chunk are compared (tie), monitors on the implementation: decoded packets = generated packets (valid), no panic, same packets / '
         'verdict / failing byte for both chunkings, oversize rejected no later than the length-completing byte, no delivered packet has a string field containing U+0000 (MQTT-1.5.4-2, the extracted statement of C03_strings_no_nul; raw property sections draw strings with a zero byte), corpus streams marked REJECT are reported as errors. 13 x 256 reason-code tables of the compiled '
         'code are compared with the model (tie: equal) and with the specification tables (property: every specification code accepted; extra accepted codes noted) on every run. distinct = distinct byte streams; non-trivial = at least 2 bytes'}

META = {'design_ref': 'DESIGN.md section 7 / C03',
 'level_note': 'Trusted: Coq kernel; the tie (facade, harness, OCaml driver); std::str::from_utf8 modelled by utf8_ok. The specification side (encoder, reason-code '
               'tables) is written from the OASIS texts by hand and is part of the statement.',
 'level_text': 'Coq theorems over a line-by-line model of the framing decoder and of every per-packet decoder: feeding a then b equals feeding a++b for any '
               'body decoder, hence every partition of a stream gives the same packets, verdict and state (C03_chunking, C03_chunking_partition); no panic site '
               'is reachable from any well-formed decoder state on any bytes (C03_no_panic, C03_packet_decoders_total); a fixed header announcing more than the '
               'effective maximum is rejected by the call that consumes the byte completing the length field with no body byte buffered (C03_size_gate); the '
               "implementation's reason-code tables equal the specification's on all 256 values (C03_reason_codes_*); for UNSUBACK they agree except that the "
               'implementation also accepts 144, a lenient extra (C03_reason_codes_unsuback, _only_144, _spec_accepted); every server-to-client packet kind of MQTT 5 and 3.1.1 produced by the independent specification encoder, in any legal property order and '
               'any compact form, decodes to exactly its content, also through the framing decoder (C03_faithful_packet, C03_faithful_stream); no string field of any packet the decoder returns, for any bytes in any chunking, contains U+0000 (C03_strings_no_nul, C03_strings_no_nul_stream; MQTT-1.5.4-2, defect D27 repaired). The model is run against Decoder::decode_bytes on generated valid and malformed streams under '
               'random chunkings on every check.',
 'technique': 'machine-checked proof in Coq (induction over byte streams / property lists; exhaustive 256-value tables by vm_compute) + differential '
              'correspondence of the extracted model with the implementation, specification-side generation'}
