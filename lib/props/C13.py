"""C13 — both drivers move bytes faithfully and always deliver an operation's result."""

PROP = {'areas': [{'area': 'c13', 'corpus': ['corpus/C13/ws.txt', 'corpus/C13/ws_write.txt', 'corpus/C13/results.txt'], 'quick': 16000, 'thorough': 1600000},
           {'area': 'engine', 'corpus': [], 'extra': ['100'], 'only_sig': '^C01:monitor:103$', 'quick': 12000, 'thorough': 2000000, 'tie_sig': '^$'}],
 'coq_target': 'Properties/C13.vo',
 'modelled': 'process_connected of both drivers (client/asynchronous/tokio/mod.rs 112-247, client/synchronous/threaded/mod.rs 154-330): outbound buffer, '
             'cumulative-bytes-written cursor, service appending, flush + write completion only for a fully written batch, Ok(0) / would-block / interrupted '
             'differences; WebsocketStreamWrapper + MessageCursor (client/synchronous/threaded/ws_stream.rs 11-139) as written; the operation channel and the '
             'per-operation result channel (tokio oneshot, threaded SyncResultSender/Receiver: client/synchronous/mod.rs 19-99, submit_* macros)',
 'not_modelled': 'tungstenite (message-level contract: read yields message / would-block / error; send = queue + flush, a would-block flush leaves the frame '
                 'queued), tokio / std channels (contract: dropped oneshot sender resolves the receiver with an error; a dropped std Sender/closure just '
                 'drops), real scheduling and OS write semantics: quantified over as event orders / write-result lists in the models, SAMPLED on the real '
                 'loops',
 'rule': 'per case one of: (ws-read) random message list (binary / text / ping, lengths 0..3x buffer) x buffer size in {1,2,3,4,8,16,64} x arrival pattern '
         "(bursts, would-block boundaries, transport failure), frames produced by tungstenite's server side, read by the REAL WebsocketStreamWrapper and by "
         'the extracted WsCursor.ws_read, compared read by read (tie) + stream = payload concatenation and no read larger than the buffer (property); '
         '(ws-write) write/flush sequences over a transport that would-blocks, server-side decoding of what was accepted vs what the write calls reported; '
         '(real-bytes) REAL tokio / threaded clients on a scripted transport with partial / blocked / interrupted writes and fragmented reads: the transport '
         'must have received exactly CONNECT ++ the submitted publishes; (real-results) submissions racing close(): every operation exactly one result. '
         'Real-driver scenarios are 1/200 of the cases (about 0.5 s each). distinct = all cases (random inputs) || ENGINE: close() resolves what is left '
         "through the engine's reset: the engine area with the monitor mon_reset_clears (after reset every operation has received exactly one completion and "
         'nothing stays tracked, in every protocol state, Disconnected included).'}

META = {'design_ref': 'DESIGN.md section 7 / C13',
 'level_note': 'Proved for the models over ALL write-result sequences / event orders / interleavings; the WebSocket adapter model is tied read-by-read to the '
               'real adapter on random inputs; the byte path and result delivery of the real tokio / threaded loops are SAMPLED on scripted transports '
               '(scheduling, select!, thread interleavings, OS write semantics are not controllable). C13_bytes_in is definitional in the loop model (the '
               'fragment is passed through); its substance is the adapter theorem and the sampled runs. D15 (adapter read offsets) was found here and is fixed '
               '(73a05c7); known findings: D15b (WebSocket send repeated after would-block), D16 (threaded result slot).',
 'level_text': 'Coq theorems: for every engine and every list of driver events (any write results, both drivers) accepted bytes ++ unwritten tail = '
               'concatenation of the engine outputs, write completion only when exactly the produced outputs are accepted, finished connections got a prefix '
               '(C13_bytes_out); tokio result channel: in every interleaving each operation is accounted exactly once and has exactly one result once the loop '
               'exited (C13_result_exactly_once), threaded likewise while the loop runs, refuted after loop exit (C13_result_exactly_once_refuted, D16); '
               'WebSocket adapter: for every message list (any sizes relative to the buffer, several per read), buffer size and arrival pattern the reads '
               'return the payload concatenation and never more than the buffer holds (C13_ws_reassembly, C13_ws_read_bounded); write side refuted '
               '(C13_ws_write_refuted, D15b) and proved outside that class (C13_ws_write). The engine half of "operations still pending at close resolve with '
               'an error" is C01_reset / C01_reset_any (theorems) and the monitor mon_reset_clears on the engine area, which is part of this check.',
 'technique': 'machine-checked proof in Coq (invariants by induction over event lists; counting argument for result delivery; vm_compute witnesses) + '
              'read-by-read correspondence of the extracted adapter model with the real adapter + sampled runs of the real drivers'}
