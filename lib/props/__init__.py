"""Per-property configuration: one file lib/props/Cxx.py defining PROP (what ./check runs) and
META (MANIFEST texts).  NOT_CLAIMED gives the reason for every property without a file."""
import glob, importlib, os

COMMON_TRUSTED = [
    "Coq 8.16.1 kernel (coqc; vm_compute used, native_compute not used)",
    "axioms: none declared; Print Assumptions of every property theorem must print 'Closed under the global context' unless the property file allow-lists a standard-library axiom by name",
    "extraction: ExtrOcamlBasic only (Extract Inductive for bool, option, unit, list, prod, sumbool, sumor); no Extract Constant; N/positive/Z/nat stay Coq datatypes",
    "tie: hand-written models checked against the implementation by the correspondence run (Rust facade src/verif/*, harness/, ocaml/driver/*.ml, lib/*.py are trusted for the tie only)",
]

HOOK_COMMITS = ["fba652c", "fbea427", "92cbd45", "b453712", "864e116", "2281b05"]

PROPS, META = {}, {}
for f in sorted(glob.glob(os.path.join(os.path.dirname(__file__), "C[0-9]*.py"))):
    name = os.path.basename(f)[:-3]
    m = importlib.import_module("props." + name)
    PROPS[name] = m.PROP
    META[name] = m.META

_pending = "not claimed yet: the Coq model and its correspondence check for this property are still being built (see DESIGN.md section 11); the technique applies"
NOT_CLAIMED = {("C%02d" % i): _pending for i in range(1, 21)}
