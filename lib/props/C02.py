"""C02 — outbound packets are spec-conformant and carry what the user supplied: configuration of ./check C02."""

PROP = {'areas': [{'area': 'c02',
            'corpus': ['corpus/C02/d3_subscribe_subid.txt', 'corpus/C02/boundaries.txt', 'corpus/C02/trailing_empty.txt', 'corpus/C02/d28_nul_in_string.txt'],
            'quick': 20000,
            'thorough': 2000000},
           {'area': 'engine',
            'corpus': ['corpus/engine/d25_connect311_empty_client_id.script',
                       'corpus/engine/d27_assigned_client_id_nul.script',
                       'corpus/engine/d29_connect311_password_without_username.script'],
            'extra': ['100'],
            'only_prop': 'C02',
            'quick': 3000,
            'thorough': 2000000,
            'tie_fields': ['out']}],
 'coq_target': 'Properties/C02.vo',
 'modelled': 'encode.rs Encoder::reset / Encoder::encode / process_encoding_step / encode_vli / compute_variable_length_integer_encode_size and all length / '
             'step macros; mqtt/{connect,publish,puback,pubrec,pubrel,pubcomp,subscribe,unsubscribe,pingreq,disconnect,auth}.rs '
             'compute_*_packet_length_properties* and write_*_encoding_steps5/311 (non-test build: CONNACK/SUBACK/UNSUBACK/PINGRESP encoders are Unimplemented '
             'stubs); the reference side is Codec/SpecDecodeC2S.v, written from the OASIS MQTT 5.0 / 3.1.1 texts',
 'not_modelled': 'Vec::with_capacity is assumed to give exactly the requested capacity; usize arithmetic is unbounded (no 64-bit overflow on in-memory '
                 'lengths); topic / topic-filter grammar and cross-packet rules are outside the reference decoder (C16); ConnectOptions::to_connect_packet '
                 '(client/config.rs) is not part of this model',
 'rule': 'cases = structured packets of every kind (every optional field toggled; string / binary lengths from the pool 0/1/127/128/16383/16384/65535, small '
         'random ones and rarely > 65535; well-formed UTF-8 with boundary code points of every encoded length; 0..15 user properties, 0..23 subscriptions / '
         'filters; every legal reason code) x protocol version x alias resolution (skip_topic, alias) x 1..5 buffer capacities >= 4 (rarely < 4) with random '
         "prefill.  The packet text goes to the facade command ENC (the crate's Encoder, one call per buffer) and to the extracted model "
         '(ImplEncode.impl_steps + Steps.encode_call per buffer); bytes / error kind / panic are compared (tie); in a fifth of the cases the capacity list is '
         'cut to exactly the number of calls the model needs (or one fewer) and followed by a capacity 3, which makes the NUMBER of encode calls observable '
         "(one call too many panics).  Monitor: for packets satisfying ValidC2S.valid the extracted reference decoder applied to the IMPLEMENTATION's bytes "
         'must return ValidC2S.canon of the packet with nothing left, and a second run with one large buffer must give the same bytes.  distinct = distinct '
         '(packet, version, resolution, capacities); non-trivial = valid packet encoded over at least two encode calls'}

META = {'design_ref': 'DESIGN.md section 7 / C02',
 'level_note': 'Trusted: Coq kernel; the tie (facade ENC, harness, OCaml driver); Prim.utf8_ok as the definition of well-formed UTF-8 (shared by the validity '
               "predicate and the reference decoder); the reference decoder is the author's reading of the OASIS texts.",
 'level_text': 'Coq theorems over a line-by-line model of the step encoder and of every packet encoder: C02_fragmentation (one Encoder::encode call emits a '
               'prefix of the unfragmented byte string and leaves steps producing the rest, for every fill <= capacity >= 4; progress when 4 bytes are free; '
               'any call sequence that finishes emits exactly flatten steps), and per packet kind and protocol version: valid packet -> the encoder succeeds '
               'and the independent reference decoder returns the canonical form of the packet with no bytes left. SUBSCRIBE (MQTT5) with a subscription '
               'identifier was refuted on the code before /repo commit d62c54a (D3) and is proved for the repaired encoder. The model is run against the '
               "crate's encoder on generated packets on every check. RUN-LEVEL, byte stream of a connection (C02_run_wire_*, C02_instance_wire_*; "
               'EngineProofs/WireRun*.v; hypotheses comps_ok - discharged for the concrete engine -, ok_cfg, ok_event only): the service loop is instrumented '
               'with the alias log of C17 interleaved with the bytes every single Encoder::encode call returned, proved equal to the model (same result, same '
               'alias events, byte events = emitted bytes: C02_wire_loop_*, C02_wire_log_*); for every event history and every connection of it, the bytes '
               'emitted since the EvOpen are the concatenation of the COMPLETE encodings (impl_encode_all = flatten of impl_steps, proved error-free) of the '
               'packets whose encoder was constructed on this connection and ran to completion, in construction order - exactly the successful enc_reset '
               'calls of the alias log followed by ODone -, followed by a PREFIX of the encoding of the packet the encoder currently holds (empty if none): '
               'nothing else is ever emitted, two packets are never interleaved, nothing is emitted before the first open, and a packet interrupted by a '
               'close is never continued on the next connection (its stream starts empty; witness C02_wire_example_connection2: the operation is re-encoded '
               'from its first byte). With the per-kind theorems (C02_all_kinds, C02_spec_decode_on_stream, C02_stream_decodes): if every (packet, resolution) '
               'an encoder was constructed for on the connection satisfies ValidC2S.valid, the specification decoder, iterated, reads the completed part of '
               'the stream back as exactly the canonical forms of those packets, in order, nothing left over (C02_instance_wire_decodes). That premise is '
               'DISCHARGED (ValidateProofs/Bridge*.v, EngineProofs/WireValid*.v): packet level, C02_bridge_user - a PUBLISH / SUBSCRIBE / UNSUBSCRIBE / '
               'DISCONNECT (both versions) that is a value of the Rust packet type, whose erased form (packet id 0, DUP 0) passed the submission-time '
               'validator, that passed the send-time validator with its resolution, is shorter than 4 GiB, carries an engine-allocated packet id and a '
               "resolver's resolution satisfies ValidC2S.valid; every premise has a necessity witness (the send-time validator alone accepts an empty "
               'topic without alias, U+0000 in the topic, a subscription identifier 0, an empty SUBSCRIBE / UNSUBSCRIBE: '
               'C02_send_time_check_alone_insufficient); the acks the engine builds (default_ack pid) are valid iff pid is 1..65535, PINGREQ always; the '
               'CONNECT of a configuration is valid IFF the configuration satisfies the explicit predicate connect_checked (C02_connect_valid_iff, one '
               'witness configuration per clause; connect options are validated nowhere in the crate: D17 / D25 / D29). Run level, '
               'C02_instance_wire_wellformed: for every history with ok_cfg, ok_event, sub_ev (every submitted packet is one of the four user kinds, '
               'typed, accepted by validate_packet_outbound and shorter than 4 GiB; incoming data are octets) and connect_opts_ok (the configuration '
               'satisfies connect_checked for every client id the CONNECT can carry), EVERY (packet, resolution) an encoder is constructed for is '
               'ValidC2S.valid, hence the completed part of every connection\'s byte stream decodes, by the specification decoder, to exactly the '
               'canonical seated packets. Proof: an invariant over the operation table (every operation holds a validated submission up to packet id / '
               'DUP, a valid CONNECT, a default ack with a real packet id, or PINGREQ; PUBREL slots hold default acks; packet-id cursor, negotiated '
               'client id / topic alias maximum, decoder buffer and outbound resolver within range) preserved by every event - the close needs the '
               'well-formedness invariant (DUP only on QoS >= 1) -, the send-time validator accepting the very packet the encoder is constructed for, '
               'decoder facts (16-bit fields of decoded packets below 65536 on octets, assigned client id a valid string: C02_decoded_packets_in_range) '
               'and the resolver bound (alias 1..65535, none in 3.1.1: C02_resolver_bound). Both non-library premises are necessary at run level, by '
               'computation: an unvalidated empty-topic PUBLISH is put on the wire and rejected by the specification decoder '
               '(C02_unvalidated_submission_reaches_the_wire); 3.1.1 options with a password and no user name give an invalid CONNECT '
               '(C02_unchecked_connect_options_reach_the_wire). Remaining hypotheses that are not checks of the library: the type invariants (typed: '
               'String = UTF-8, enum ranges), the 4 GiB bound (u32 length arithmetic), connect_opts_ok. The stream theorem itself has no '
               'such hypothesis. The stream theorem is about the model the correspondence check executes; that the implementation emits the same bytes stays '
               "the lock-step tie (field out) and monitor 201.",
 'technique': 'machine-checked proof in Coq (round-trip lemmas per wire primitive composed per packet; induction over step lists) + differential '
              'correspondence of the extracted model with the implementation, reference decoder as monitor'}
