"""C05 — inbound publishes acked correctly; QoS 2 surfaces exactly once."""

PROP = {'areas': [{'area': 'engine',
            'corpus': ['corpus/engine/c05_qos2_resume_duplicate_release.script',
                       'corpus/engine/d11_half_encoded_connect_service_time.script',
                       'corpus/engine/d12_keep_alive_one_second.script',
                       'corpus/engine/d14_close_with_queued_disconnect.script',
                       'corpus/engine/d21_slow_start_failed_attempt.script',
                       'corpus/engine/d6_ack_timeout_mid_pubrel.script',
                       'corpus/engine/d7_alias_after_failed_validation.script',
                       'corpus/engine/d9_connack_before_connect_flushed.script'],
            'extra': ['100'],
            'only_prop': 'C05',
            'quick': 12000,
            'thorough': 2000000,
            'tie_fields': ['out', 'ev', 'hq', 'q2in', 'ops']},
           {'area': 'c12',
            'corpus': ['corpus/C12/d13.txt', 'corpus/C12/d10b.txt'],
            'only_sig': '^C05:client-surfacing',
            'quick': 3000,
            'thorough': 300000,
            'tie_sig': '^$'}],
 'coq_target': 'Properties/C05.vo',
 'modelled': 'protocol.rs ProtocolState: handle_user_event, handle_network_event (opened / closed / incoming data / write completion), service '
             '(pending-connack / connected / pending-disconnect), get_next_service_timepoint, reset and every helper they call (operation table, three intake '
             'queues, current operation, pending tables, ack-timeout heap, packet-id allocation, slow start, keep-alive, session handling, all packet '
             'handlers), transcribed in coq/Engine/Model.v; instantiated in Engine/Instance.v with the codec (Codec/*), validation (Validate/Rules.v) and '
             'alias (Alias/*) models',
 'not_modelled': 'HashMap iteration order (completions of one step compared as a set; intake queues compared as multisets between a close and the next '
                 'CONNACK, where the code re-sorts them), VecDeque ring layout used by sort_operation_deque, BinaryHeap order among equal deadlines, Instant '
                 'arithmetic beyond 2^63 ms, logging; user callbacks are assumed not to panic',
 'rule': 'histories = engine configuration (protocol version x 4 offline policies x drain policy x retry limit x resolver x keep-alive / ping timeout / '
         'connect options, packet-id cursor preset near 65535 in 15%) x 100 abstract driver / broker actions drawn from one PRNG state (submit publish / '
         'subscribe / unsubscribe / disconnect with or without ack timeout, open, close, service with buffer capacities 4..4096, write completion, advance to '
         'the reported service time, broker answers by the reference codec: CONNACK with random limits and session flag, acks in / out of order, inbound '
         'publishes QoS 0/1/2 with aliases, PUBREL; hostile profile: unknown / duplicate / wrong-type acks, second CONNACK, server DISCONNECT, garbage; '
         'resets) — every concrete event is executed in lock-step on the implementation (facade Engine) and on the extracted Coq model and the complete '
         'response (outcome, state, completions, packet events, bytes, next service time, full bookkeeping snapshot) is compared (kind=tie, with the set of '
         "diverging fields); the extracted monitors of Engine/Monitors.v judge the IMPLEMENTATION's observation (kind=property, with the first observation at "
         'which the monitor turns false and the script that reproduces it). distinct = distinct command scripts; non-trivial = reached at least one '
         'interesting predicate (x_interesting_predicates_reached) || CLIENT LEVEL: the client area (real MqttClientImpl over the real engine, driven event by '
         'event) with the monitor "every PUBLISH the engine processes in a read is surfaced to the listeners by that call, whatever the call returns" (reads '
         'holding a publish followed by a server DISCONNECT / an illegal CONNACK / garbage are generated).'}

META = {'design_ref': 'DESIGN.md section 7 / C05',
 'level_note': 'Trusted: Coq kernel; the tie (facade engine.rs, harness, OCaml driver incl. the generator); the reference codec used by the simulated broker '
               '(SpecDecodeC2S / SpecEncodeS2C); abstract component hypotheses of the engine theorems (no-panic of codec / validators / resolvers) are '
               'discharged in the codec / validation / alias developments or stated as premises.',
 'level_text': 'RUN-LEVEL Coq theorems (EngineProofs/Inbound*.v, for an ARBITRARY start state and any decoder / resolver / validator / encoder; only premise: '
               'no step of the history panicked, discharged for the concrete instance from the initial state by C05_instance_refines via the well-formedness '
               'development): C05_q2in_refines - after every event history the set of unreleased inbound QoS 2 ids equals (as a list) the abstract '
               'specification q2_spec folded over the log of packets the engine actually handed to its handlers (+ processed QoS 2 PUBLISH, - processed '
               'PUBREL, cleared by an accepted session-absent CONNACK and by reset; submissions, open, close, write completion, service, timer queries and all '
               'other packets change nothing; packets after the first failure of a data call are not processed); C05_events_refine - the packet events '
               'surfaced over the history are exactly, in order, every processed QoS 0/1 PUBLISH, every processed QoS 2 PUBLISH whose id is not in the set at '
               'that moment (topic as resolved by the inbound alias resolver), every successful or refusing awaited CONNACK and every accepted server '
               'DISCONNECT; C05_qos2_surfaced_once(_between) - between two releases of an id (PUBREL / session-absent CONNACK / reset) at most one QoS 2 '
               'publish with that id is surfaced, over closes and session-present reconnects too; C05_packet_loop_refines / C05_data_appends_acks / '
               'C05_ack_operation_created - a data call appends to the BACK of the high-priority queue, in packet order, exactly one fresh PUBACK(id) per '
               'processed QoS 1 PUBLISH, one PUBREC(id) per processed QoS 2 PUBLISH (new or duplicate), one PUBCOMP(id, reason 0 even for an unknown id) per '
               'processed PUBREL, plus the PUBREL carrier of an outbound QoS 2 publish whose PUBREC arrived, and nothing else; C05_hq_step_shape / '
               'C05_acks_fifo_step / C05_dequeue_takes_head - every step only pushes at the front (DISCONNECT, CONNECT, PINGREQ), removes a prefix (service '
               'takes the head, close / reset drop all) or appends at the back, so entries keep their order and leave from the head. ONE-STEP theorems for '
               'every state (C05_qos1_puback ... C05_close_keeps_inbound_qos2) as before. NOT proved in Coq: that a queued acknowledgement operation is '
               'encoded to the wire unchanged (service loop + codec: C02/C10) and is still in the operation table when dequeued, and the last step from the '
               'FIFO queue to the order of bytes on the wire; these, and the whole property on the IMPLEMENTATION, are the monitors mon_c05_acks / '
               'mon_c05_deliver on the implementation trace (lock-step with the extracted model), against a simulated broker that keeps its inbound QoS 2 '
               "session state and retransmits unreleased publishes At the client level (dispatch of the engine's packet events to the listeners, client/mod.rs "
               "handle_incoming_bytes) the statement is the client model's dispatch (Client/Impl.v: events are dispatched whatever the result) tied in "
               'lock-step, plus the monitor C05:client-surfacing of the client area.',
 'technique': 'machine-checked proof in Coq over the engine model + lock-step correspondence of the extracted model with the implementation + extracted '
              'monitors on the implementation trace'}
