"""C07 — one faithful CONNECT first, nothing before CONNACK, nothing after DISCONNECT."""

PROP = {'areas': [{'area': 'engine',
            'corpus': ['corpus/engine/d11_half_encoded_connect_service_time.script',
                       'corpus/engine/d12_keep_alive_one_second.script',
                       'corpus/engine/d14_close_with_queued_disconnect.script',
                       'corpus/engine/d21_slow_start_failed_attempt.script',
                       'corpus/engine/d6_ack_timeout_mid_pubrel.script',
                       'corpus/engine/d7_alias_after_failed_validation.script',
                       'corpus/engine/d9_connack_before_connect_flushed.script',
                       'corpus/engine/d29_connect311_password_without_username.script'],
            'extra': ['100'],
            'only_prop': 'C07',
            'quick': 12000,
            'thorough': 2000000,
            'tie_fields': ['out', 'outcome', 'st', 'connackto', 'cb', 'hq', 'ev']}],
 'coq_target': 'Properties/C07.vo',
 'modelled': 'protocol.rs ProtocolState: handle_user_event, handle_network_event (opened / closed / incoming data / write completion), service '
             '(pending-connack / connected / pending-disconnect), get_next_service_timepoint, reset and every helper they call (operation table, three intake '
             'queues, current operation, pending tables, ack-timeout heap, packet-id allocation, slow start, keep-alive, session handling, all packet '
             'handlers), transcribed in coq/Engine/Model.v; instantiated in Engine/Instance.v with the codec (Codec/*), validation (Validate/Rules.v) and '
             'alias (Alias/*) models',
 'not_modelled': 'HashMap iteration order (completions of one step compared as a set; intake queues compared as multisets between a close and the next '
                 'CONNACK, where the code re-sorts them), VecDeque ring layout used by sort_operation_deque, BinaryHeap order among equal deadlines, Instant '
                 'arithmetic beyond 2^63 ms, logging; user callbacks are assumed not to panic',
 'rule': 'histories = engine configuration (protocol version x 4 offline policies x drain policy x retry limit x resolver x keep-alive / ping timeout / '
         'connect options, packet-id cursor preset near 65535 in 15%) x 100 abstract driver / broker actions drawn from one PRNG state (submit publish / '
         'subscribe / unsubscribe / disconnect with or without ack timeout, open, close, service with buffer capacities 4..4096, write completion, advance to '
         'the reported service time, broker answers by the reference codec: CONNACK with random limits and session flag, acks in / out of order, inbound '
         'publishes QoS 0/1/2 with aliases, PUBREL; hostile profile: unknown / duplicate / wrong-type acks, second CONNACK, server DISCONNECT, garbage; '
         'resets) — every concrete event is executed in lock-step on the implementation (facade Engine) and on the extracted Coq model and the complete '
         'response (outcome, state, completions, packet events, bytes, next service time, full bookkeeping snapshot) is compared (kind=tie, with the set of '
         "diverging fields); the extracted monitors of Engine/Monitors.v judge the IMPLEMENTATION's observation (kind=property, with the first observation at "
         'which the monitor turns false and the script that reproduces it). distinct = distinct command scripts; non-trivial = reached at least one '
         'interesting predicate (x_interesting_predicates_reached)'}

META = {'design_ref': 'DESIGN.md section 7 / C07',
 'level_note': 'Trusted: Coq kernel; the tie (facade engine.rs, harness, OCaml driver incl. the generator); the reference codec used by the simulated broker '
               '(SpecDecodeC2S / SpecEncodeS2C); abstract component hypotheses of the engine theorems (no-panic of codec / validators / resolvers) are '
               'discharged in the codec / validation / alias developments or stated as premises.',
 'level_text': 'RUN-LEVEL Coq theorems (induction over every event history from the initial state; hypotheses: the component invariants comps_ok - discharged '
               'for the concrete engine in the C07_instance_* versions -, ok_cfg, ok_event and, where CONNECT operations are counted, user_ok = no CONNECT '
               'packet submitted as a user operation, which the client API cannot produce; its necessity is the witness C07_run_example_user_connect_is_sent): '
               '(a) while the CONNACK is awaited a service call seats at most one operation, from the high-priority queue, and it is the non-user CONNECT of '
               'this connection attempt whose packet is create_connect; the operation on the encoder before and after the call is that CONNECT; no completion '
               'is delivered; no other CONNECT operation exists (C07_run_only_connect_before_connack, C07_run_no_packet_but_connect_before_connack); (b) a '
               'connection opening creates exactly the CONNECT at the front of the high-priority queue, no other event creates a CONNECT operation in ANY '
               'state, a user-submitted CONNECT is refused unless Connected, and no CONNECT operation exists in any reachable Connected / PendingDisconnect / '
               'Disconnected state (C07_opened_creates_the_connect, C07_no_other_connect_creation, C07_user_connect_behaviour, '
               'C07_run_no_connect_operation_once_connected); (c) Connected is entered only by inbound data that carries a CONNACK with reason code 0, '
               'surfaced as an event, in PendingConnack with connect_in_queue = false, and every reachable Connected state has been Connected ever since that '
               'step, with no opening or close in between (C07_connected_entry, C07_run_connected_only_after_connack, C07_run_connected_means_no_open_close, '
               'C07_protocol_state_table, C07_state_entry); (d) from a reachable PendingDisconnect or Halted state no event short of a close emits a byte or '
               'leaves {PendingDisconnect, Halted}, and the service loop stops at once when the DISCONNECT is completely written (C07_quiet_step, '
               'C07_run_nothing_after_disconnect, C07_loop_stops_when_pending_disconnect). The seat trace used in (a) is an instrumented copy of the service '
               'loop proved to compute the very same result (C07_service_loop_trace_is_the_loop). ONE-STEP theorems for every state and input: CONNACK in a '
               'wrong state / failing code / before the CONNECT is flushed / past the deadline is an error; the CONNECT reflects the options field by field, '
               'clean start follows the rejoin table, a server-assigned client id is reused; negotiated settings = CONNACK else CONNECT else default (12 '
               "fields); PendingDisconnect, Halted and Disconnected are silent. NOT proved: 'the CONNECT was completely written' is expressed as "
               'connect_in_queue = false (the CONNECT operation has left queue, encoder and written-not-completed list; in the abstract model it could also '
               'leave by failing last-chance outbound validation, which the real validator never does for a CONNECT). (e) CONNECT FIRST ON THE WIRE '
               '(C07_run_connect_first_on_wire, C07_instance_connect_first_on_wire, C07_instance_stream_starts_with_connect; EngineProofs/WireRunConnect.v, '
               'WireRunPubrel*.v; extra hypothesis of the abstract version: the last-chance validator accepts every CONNECT, true by definition for the '
               'validator of the instance): for every history and every connection of it, the FIRST packet an encoder is constructed for is create_connect of the '
               'state in which the connection opened, with no alias resolution, and no other packet an encoder is constructed for on that connection is a '
               'CONNECT (once connected no CONNECT operation exists, and the PUBREL slot of an operation never holds a CONNECT: invariant '
               'C07_run_pubrel_slot_never_connect, for every step of every state); combined with the stream theorem of C02 (C02_run_wire_connection): the byte '
               'stream of every connection is complete packet encodings plus a prefix of one, starts with the encoding of that CONNECT (complete as soon as any later packet follows) and contains '
               'no other CONNECT frame. Still monitors on sampled histories (mon_c07 / mon_c07_connected): that the IMPLEMENTATION emits the bytes the model '
               'emits (lock-step tie), and nothing-but-the-CONNECT-before-the-CONNACK at byte level beyond what (a) + (e) give for the model',
 'technique': 'machine-checked proof in Coq over the engine model + lock-step correspondence of the extracted model with the implementation + extracted '
              'monitors on the implementation trace'}
