"""C17 — topic aliases."""

PROP = {'areas': [{'area': 'c17r', 'corpus': ['corpus/C17/resolver.txt'], 'quick': 12000, 'thorough': 400000},
           {'area': 'engine', 'corpus': [], 'extra': ['100'], 'only_prop': 'C17', 'quick': 12000, 'thorough': 2000000, 'tie_fields': ['out', 'ev', 'outcome']}],
 'coq_target': 'Properties/C17.vo',
 'modelled': 'alias.rs: NullOutboundAliasResolver, ManualOutboundAliasResolver (including `alias_value < maximum`), LruOutboundAliasResolver (after fix '
             '10d5c82; `(len + 1) as u16`, panic site as Panic 40) and InboundAliasResolver; the lru crate as a most-recently-used-first association list '
             '(peek / promote / push / pop_lru / peek_lru / len / clear); engine level: protocol.rs ProtocolState: handle_user_event, handle_network_event '
             '(opened / closed / incoming data / write completion), service (pending-connack / connected / pending-disconnect), get_next_service_timepoint, '
             'reset and every helper they call (operation table, three intake queues, current operation, pending tables, ack-timeout heap, packet-id '
             'allocation, slow start, keep-alive, session handling, all packet handlers), transcribed in coq/Engine/Model.v; instantiated in Engine/Instance.v '
             'with the codec (Codec/*), validation (Validate/Rules.v) and alias (Alias/*) models',
 'not_modelled': 'user-supplied OutboundAliasResolver implementations; the lru crate itself (its model is validated by the lock-step runs only); HashMap '
                 'iteration order (completions of one step compared as a set; intake queues compared as multisets between a close and the next CONNACK, where '
                 'the code re-sorts them), VecDeque ring layout used by sort_operation_deque, BinaryHeap order among equal deadlines, Instant arithmetic '
                 'beyond 2^63 ms, logging; user callbacks are assumed not to panic',
 'rule': 'cases = one resolver (null / manual / lru:n, n in {0,1,2,3,4,5,8,65535} / inbound with maximum in {0,1,2,3,8,65535}) x a random sequence of '
         'reset(max) / resolve(alias, topic) over topic sets smaller and larger than the maximum (aliases 0, max, max+1, 65535 included; empty topics); every '
         "reply compared with the extracted model (tie); monitor on the implementation's replies: a reference server-side alias table replays the returned "
         'resolutions — alias in 1..max, topic omitted only with an alias the table maps to exactly the supplied topic, no alias when max = 0, no panic; '
         'inbound replies compared with a reference table (latest binding since the last reset; unknown / zero / out-of-range => InvalidInboundTopicAlias; '
         'never an empty topic with an alias). Corpus: eviction / promotion / re-binding sequences and the D22 regression (65536 distinct topics on '
         'lru:65535). distinct = distinct case texts; non-trivial = at least 3 operations || ENGINE LEVEL: histories = engine configuration (protocol version '
         'x 4 offline policies x drain policy x retry limit x resolver x keep-alive / ping timeout / connect options, packet-id cursor preset near 65535 in '
         '15%) x 100 abstract driver / broker actions drawn from one PRNG state (submit publish / subscribe / unsubscribe / disconnect with or without ack '
         'timeout, open, close, service with buffer capacities 4..4096, write completion, advance to the reported service time, broker answers by the '
         'reference codec: CONNACK with random limits and session flag, acks in / out of order, inbound publishes QoS 0/1/2 with aliases, PUBREL; hostile '
         'profile: unknown / duplicate / wrong-type acks, second CONNACK, server DISCONNECT, garbage; resets) — every concrete event is executed in lock-step '
         'on the implementation (facade Engine) and on the extracted Coq model and the complete response (outcome, state, completions, packet events, bytes, '
         'next service time, full bookkeeping snapshot) is compared (kind=tie, with the set of diverging fields); the extracted monitors of Engine/Monitors.v '
         "judge the IMPLEMENTATION's observation (kind=property, with the first observation at which the monitor turns false and the script that reproduces "
         'it). distinct = distinct command scripts; non-trivial = reached at least one interesting predicate (x_interesting_predicates_reached)'}

META = {'design_ref': 'DESIGN.md section 7 / C17',
 'level_note': 'Trusted: Coq kernel; the tie (facade engine.rs, harness, OCaml driver incl. the generator); the reference codec used by the simulated broker '
               '(SpecDecodeC2S / SpecEncodeS2C); abstract component hypotheses of the engine theorems (no-panic of codec / validators / resolvers) are '
               'discharged in the codec / validation / alias developments or stated as premises.',
 'level_text': 'resolver level: Coq theorems by induction over arbitrary reset / resolve histories — for the null, manual and LRU resolvers every returned '
               'resolution is safe with respect to the reference server table (C17_null_inv, C17_manual_inv, C17_lru_inv: alias in 1..max, topic omitted only '
               'for an alias the server maps to exactly that topic, none when max = 0), the LRU panic site is unreachable (C17_no_panic), and the inbound '
               'resolver answers from the latest binding since the last reset, refuses unknown / zero / out-of-range aliases and never surfaces an empty topic '
               'with an alias (C17_inbound, C17_inbound_bindings, C17_inbound_reset_forgets, C17_inbound_never_empty). Engine level, ONE STEP: a successful '
               'CONNACK resets both resolvers with the new maximum (C17_connack_resets_aliases). Engine level, RUN-LEVEL (EngineProofs/AliasRun*.v; theorems '
               'by induction over `run` from `init` for EVERY event history, hypotheses only comps_ok / ok_cfg / Forall ok_event, all discharged for the '
               "concrete engine of Engine/Instance.v by WFInstance.instance_comps_ok): the model's seat_current / service_loop / handle_packets are "
               'instrumented with the log of every call to the outbound / inbound resolver, to the last-chance validator v_out and to the encoder constructor '
               "enc_reset, with arguments and results, and proved equal to the model's functions (C17_seat_log_is_model, C17_service_loop_log_is_model, "
               'C17_handle_packets_log_is_model). OUTBOUND (C17_outbound_alias_run, C17_log_replay): the log of every history is accepted by a reference '
               "machine whose resolver is the engine's resolver, i.e. s_ores after any history = the replay of the logged ores_reset / ores_resolve calls from "
               "the initial resolver (nothing else writes it), every logged answer is the resolver's answer at that point (C17_resolve_after_pick), the "
               'encoder slot of the machine is s_cur, and the Topic Alias Maximum in the negotiated settings is that of the last accepted CONNACK. Spelled out '
               'on log positions: an encoder is constructed only right after v_out accepted the same packet with the same resolution, which for a PUBLISH is '
               "the resolution the resolver returned for exactly that packet's (alias, topic) one event earlier (C17_encode_after_validation); when v_out "
               'rejects a packet after resolution the model resets the resolver iff the resolution carried an alias, with the maximum of the last accepted '
               'CONNACK (or 0 without settings), and then fails the operation — the D7 repair, proved exactly (C17_reset_after_rejection, '
               'C17_rejection_shape); an operation is dequeued and resolved only while the encoder slot is free, i.e. after the previously seated operation '
               'was completely encoded (enc_done, fully_written), failed, gone, or the connection closed / reopened / the engine reset '
               '(C17_pick_only_when_slot_free, C17_done_closes_seat), so resolutions happen in wire order; a seat that fails between dequeue and encoder '
               'construction is the last event of its service call and halts the engine (C17_service_break_halts); and in every history a PUBLISH reaches the '
               'encoder only on a live connection: after an accepted CONNACK with no close / reset / failed seat since, never while the CONNACK is awaited '
               '(C17_publish_only_on_live_connection; uses the WF invariant and the C07 protocol-state table). COROLLARY on the concrete engine with the null '
               '/ manual / LRU (configured maximum <= 65535) resolvers, combining the above with C17_null_inv / C17_manual_inv / C17_lru_inv through a '
               'simulation in which the server sees only the PUBLISH packets that reached the encoder (C17_wire_sim): for every history every PUBLISH handed '
               'to the encoder is safe for a server that cleared its table at the last accepted CONNACK (C17_instance_wire_ok); explicitly '
               '(C17_instance_alias_on_wire) without an alias the topic is kept, with an alias the alias is in 1..Topic Alias Maximum of that CONNACK, and if '
               'the topic is omitted then an earlier PUBLISH handed to the encoder after that CONNACK carried this alias together with exactly this topic and '
               'no PUBLISH in between rebound the alias; with maximum 0 (or no CONNACK) no alias is used (C17_instance_no_alias_when_max_zero); a decoded '
               '3.1.1 CONNACK carries no maximum (C17_connack311_no_tam, one-step decoder fact; that every CONNACK emitted by the 3.1.1 framing loop comes '
               'from that decoder function is not proved here). INBOUND (C17_inbound_alias_run, C17_instance_inbound_alias_run): s_ires after any history = '
               'the replay of the logged calls: ires_reset exactly at accepted CONNACKs (same place as the outbound reset; net_opened does not touch it), '
               'ires_resolve exactly once per processed inbound PUBLISH in order; the PUBLISH events handed to the application are exactly the logged '
               'surfacings, each directly after its resolver call succeeded and carrying the topic that call returned (C17_instance_surfaced_topic); what each '
               'call returned is the answer of the resolver-level theorem on the bindings since the last accepted CONNACK: the latest binding of that alias, '
               'or InvalidInboundTopicAlias for an unknown / zero / out-of-range alias (C17_instance_inbound_resolution); a resolver error fails the data call '
               'with that error, halts the engine and is the last event of the step: nothing is surfaced for that packet (C17_inbound_error_fails, every '
               'state). Bindings do not survive a reconnect: a data call surfaces a PUBLISH only if the engine was Connected / PendingDisconnect before the '
               'call or, while it was waiting for the CONNACK, accepted the CONNACK (resetting the inbound resolver) earlier in the same call '
               '(C17_surface_needs_connack, every state; that the engine is waiting for the CONNACK from the opening of a connection until one is accepted is '
               'the C07 run-level theorem). Non-vacuity: vm_compute run of the concrete engine with an LRU resolver in which a QoS 1 publish is rejected after '
               'its alias was bound (C17_run_witness_outbound / _premises / _inbound). NOT PROVED at run level: that the bytes produced by the encoder for '
               "(packet, resolution) are what the server parses (C02, per packet kind), that a submitted topic is non-empty (a guarantee of the clients' "
               "submission-time validator, not of the engine's last-chance validator), and the link from the log statements to the byte stream; these stay "
               'with the extracted monitor mon_c17_out / mon_c17_in on the implementation trace (exploration, not proof). D22 (fixed by /repo 10d5c82): before '
               'the fix the LRU resolver returned alias 0 for the 65536th distinct topic when configured with 65535 and the server announced 65535 '
               '(alias.rs:206 `(len + 1) as u16`); witness `F 65535` in corpus/C17/resolver.txt is a regression case now. D7 (fixed by /repo b059c31): the '
               'resolver recorded a binding before last-chance validation. Engine-level monitors on the implementation trace: mon_c17_out (the server-side '
               'alias table reconstructed from the wire gives the submitted topic; alias in 1..Topic Alias Maximum of the CONNACK; none under 3.1.1 or maximum '
               '0) and mon_c17_in (a publish accepted with an alias has it in 1..the maximum the CONNECT announced, an empty topic refers to an alias bound on '
               'this connection, and the message is surfaced with the topic that table gives).',
 'technique': 'machine-checked proof in Coq (induction over resolver operation histories; run-level engine theorems by induction over event histories with an '
              'instrumented model and a reference log machine; engine handler theorems) + lock-step correspondence + extracted monitor on the implementation '
              'trace'}
