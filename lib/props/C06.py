"""C06 — packet identifiers."""

PROP = {'areas': [{'area': 'engine',
            'corpus': ['corpus/engine/seed_c06c_stale_id_after_session_loss.script',
                       'corpus/engine/d11_half_encoded_connect_service_time.script',
                       'corpus/engine/d12_keep_alive_one_second.script',
                       'corpus/engine/d14_close_with_queued_disconnect.script',
                       'corpus/engine/d21_slow_start_failed_attempt.script',
                       'corpus/engine/d6_ack_timeout_mid_pubrel.script',
                       'corpus/engine/d7_alias_after_failed_validation.script',
                       'corpus/engine/d9_connack_before_connect_flushed.script'],
            'extra': ['100'],
            'only_prop': 'C06',
            'quick': 12000,
            'thorough': 2000000,
            'tie_fields': ['alloc', 'nextpid', 'out', 'ops', 'ppub', 'pnon']}],
 'coq_target': 'Properties/C06.vo',
 'modelled': 'protocol.rs ProtocolState: handle_user_event, handle_network_event (opened / closed / incoming data / write completion), service '
             '(pending-connack / connected / pending-disconnect), get_next_service_timepoint, reset and every helper they call (operation table, three intake '
             'queues, current operation, pending tables, ack-timeout heap, packet-id allocation, slow start, keep-alive, session handling, all packet '
             'handlers), transcribed in coq/Engine/Model.v; instantiated in Engine/Instance.v with the codec (Codec/*), validation (Validate/Rules.v) and '
             'alias (Alias/*) models',
 'not_modelled': 'HashMap iteration order (completions of one step compared as a set; intake queues compared as multisets between a close and the next '
                 'CONNACK, where the code re-sorts them), VecDeque ring layout used by sort_operation_deque, BinaryHeap order among equal deadlines, Instant '
                 'arithmetic beyond 2^63 ms, logging; user callbacks are assumed not to panic',
 'rule': 'histories = engine configuration (protocol version x 4 offline policies x drain policy x retry limit x resolver x keep-alive / ping timeout / '
         'connect options, packet-id cursor preset near 65535 in 15%) x 100 abstract driver / broker actions drawn from one PRNG state (submit publish / '
         'subscribe / unsubscribe / disconnect with or without ack timeout, open, close, service with buffer capacities 4..4096, write completion, advance to '
         'the reported service time, broker answers by the reference codec: CONNACK with random limits and session flag, acks in / out of order, inbound '
         'publishes QoS 0/1/2 with aliases, PUBREL; hostile profile: unknown / duplicate / wrong-type acks, second CONNACK, server DISCONNECT, garbage; '
         'resets) — every concrete event is executed in lock-step on the implementation (facade Engine) and on the extracted Coq model and the complete '
         'response (outcome, state, completions, packet events, bytes, next service time, full bookkeeping snapshot) is compared (kind=tie, with the set of '
         "diverging fields); the extracted monitors of Engine/Monitors.v judge the IMPLEMENTATION's observation (kind=property, with the first observation at "
         'which the monitor turns false and the script that reproduces it). distinct = distinct command scripts; non-trivial = reached at least one '
         'interesting predicate (x_interesting_predicates_reached)'}

META = {'design_ref': 'DESIGN.md section 7 / C06',
 'level_note': 'Trusted: Coq kernel; the tie (facade engine.rs, harness, OCaml driver incl. the generator); the reference codec used by the simulated broker '
               '(SpecDecodeC2S / SpecEncodeS2C); abstract component hypotheses of the engine theorems (no-panic of codec / validators / resolvers) are '
               'discharged in the codec / validation / alias developments or stated as premises.',
 'level_text': 'Coq theorems about the packet-id allocator for EVERY cursor position and EVERY set of reserved ids (pure list arithmetic, no enumeration): '
               'C06_alloc_ok (the id is in 1..65535, was free, is reserved for the operation afterwards, the table stays sorted and in range), '
               'C06_alloc_exhausted_only_when_full (failure only when all 65535 ids are reserved), C06_alloc_never_panics, C06_alloc_rotating (first free id '
               'at or after the cursor, cyclically, wrap 65535 -> 1), C06_alloc_succeeds_below_capacity (fewer than 65535 ids reserved => the allocation succeeds, for every cursor: pigeonhole over 1..65535), C06_alloc_cursor_wraps (new cursor = successor of the chosen id, 65535 -> 1; only cursor and table change), C06_alloc_seq_distinct / C06_alloc_seq_succeeds (ANY number of consecutive allocations: pairwise distinct fresh ids, all succeeding while the table has room). Engine-wide, over ALL event histories (induction over runs; WF invariant of '
               'EngineProofs/WF*.v): C06_nonzero_unique (in every reachable state an operation bound to an id holds an id in 1..65535 that is reserved for it, '
               'and no other operation is bound to it), C06_no_leak (every reserved id belongs to an incomplete operation bound to it: no operations, no '
               'reserved ids), C06_retransmission_same_id (every operation surviving a connection close keeps its id); C06_instance_nonzero_unique / '
               'C06_instance_no_leak / C06_instance_retransmission_same_id are the same statements for the concrete executed model (Engine/Instance.v), with '
               'the component hypotheses discharged. The same statements are judged on every history by the monitor mon_c06 (ids on the wire unique among '
               'in-flight operations, non-zero, nothing reserved when no operation is incomplete) mon_c06_retx (a DUP publish / PUBREL carries the identifier '
               'its operation was transmitted with earlier in the session) mon_c06_sent_reserved (604: an id-bearing packet whose identifier is not reserved after the call that emitted it must be explained by a completion in that same call) and mon_c06_reserved (after every call the reservation table still gives a '
               'transmitted, incomplete publish its identifier), with the cursor preset near 65535 in 15% of the histories so that wrap-around is exercised.',
 'technique': 'machine-checked proof in Coq over the engine model + lock-step correspondence of the extracted model with the implementation + extracted '
              'monitors on the implementation trace'}
