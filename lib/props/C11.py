"""C11 — clean errors, never a panic."""

PROP = {'areas': [{'area': 'engine',
            'corpus': ['corpus/engine/seed_c11c_decoder_not_reset_on_open.script',
                       'corpus/engine/d11_half_encoded_connect_service_time.script',
                       'corpus/engine/d12_keep_alive_one_second.script',
                       'corpus/engine/d14_close_with_queued_disconnect.script',
                       'corpus/engine/d21_slow_start_failed_attempt.script',
                       'corpus/engine/d6_ack_timeout_mid_pubrel.script',
                       'corpus/engine/d7_alias_after_failed_validation.script',
                       'corpus/engine/d9_connack_before_connect_flushed.script'],
            'extra': ['100'],
            'only_prop': 'C11',
            'quick': 12000,
            'thorough': 2000000,
            'tie_fields': ['outcome', 'st', 'out', 'done', 'ops']},
           {'area': 'c03',
            'corpus': ['corpus/C03/d1_unsuback_143.txt', 'corpus/C03/framing.txt', 'corpus/C03/packets.txt'],
            'only_sig': '^panic$',
            'quick': 70000,
            'thorough': 7000000}],
 'coq_target': 'Properties/C11.vo',
 'modelled': 'protocol.rs ProtocolState: handle_user_event, handle_network_event (opened / closed / incoming data / write completion), service '
             '(pending-connack / connected / pending-disconnect), get_next_service_timepoint, reset and every helper they call (operation table, three intake '
             'queues, current operation, pending tables, ack-timeout heap, packet-id allocation, slow start, keep-alive, session handling, all packet '
             'handlers), transcribed in coq/Engine/Model.v; instantiated in Engine/Instance.v with the codec (Codec/*), validation (Validate/Rules.v) and '
             'alias (Alias/*) models',
 'not_modelled': 'HashMap iteration order (completions of one step compared as a set; intake queues compared as multisets between a close and the next '
                 'CONNACK, where the code re-sorts them), VecDeque ring layout used by sort_operation_deque, BinaryHeap order among equal deadlines, Instant '
                 'arithmetic beyond 2^63 ms, logging; user callbacks are assumed not to panic',
 'rule': 'histories = engine configuration (protocol version x 4 offline policies x drain policy x retry limit x resolver x keep-alive / ping timeout / '
         'connect options, packet-id cursor preset near 65535 in 15%) x 100 abstract driver / broker actions drawn from one PRNG state (submit publish / '
         'subscribe / unsubscribe / disconnect with or without ack timeout, open, close, service with buffer capacities 4..4096, write completion, advance to '
         'the reported service time, broker answers by the reference codec: CONNACK with random limits and session flag, acks in / out of order, inbound '
         'publishes QoS 0/1/2 with aliases, PUBREL; hostile profile: unknown / duplicate / wrong-type acks, second CONNACK, server DISCONNECT, garbage; '
         'resets) — every concrete event is executed in lock-step on the implementation (facade Engine) and on the extracted Coq model and the complete '
         'response (outcome, state, completions, packet events, bytes, next service time, full bookkeeping snapshot) is compared (kind=tie, with the set of '
         "diverging fields); the extracted monitors of Engine/Monitors.v judge the IMPLEMENTATION's observation (kind=property, with the first observation at "
         'which the monitor turns false and the script that reproduces it). distinct = distinct command scripts; non-trivial = reached at least one '
         'interesting predicate (x_interesting_predicates_reached) || DECODER: the malformed / valid streams of the C03 area (bit flips, truncations, '
         'length-field edits, random bytes, every chunking) with the monitor "never panics".'}

META = {'design_ref': 'DESIGN.md section 7 / C11',
 'level_note': 'Trusted: Coq kernel; the tie (facade engine.rs, harness, OCaml driver incl. the generator); the reference codec used by the simulated broker '
               '(SpecDecodeC2S / SpecEncodeS2C); abstract component hypotheses of the engine theorems (no-panic of codec / validators / resolvers) are '
               'discharged in the codec / validation / alias developments or stated as premises.',
 'level_text': 'Coq theorems over ALL event histories (induction over runs of the engine model; no assumption on event order, server bytes or submitted '
               'packets; environment guarantees only: service is called with a buffer of at least 4 bytes and a clock below 2^62 ms, ping timeout below 2^62 '
               'ms): C11_reachable_well_formed (the well-formedness invariant WF, EngineProofs/WF*.v, holds in every reachable state), C11_no_panic (no '
               'reachable state of any history reaches one of the explicit panic sites of the engine model: every unwrap / assert / index / fuel exhaustion of '
               'protocol.rs is represented as Panic <site> and proved unreachable under WF), C11_error_halts (an error from open / close / data / write '
               'completion / service leaves the engine Halted), C11_close_clean (closing from any reachable non-disconnected state returns Ok and leaves '
               'Disconnected), C11_halted_rejects + C11_halted_silent / C11_disconnected_silent / C11_pending_disconnect_silent (after an error nothing is '
               'emitted, nothing completed, every further service / data / write completion is refused until the connection is closed), '
               'C11_data_before_connect_flushed_is_error, C11_connack_wrong_state_is_error; decoder robustness: C11_decoder_packets_total / '
               'C11_decoder_never_panics (no byte string, under any chunking, makes the decoder model panic), C11_allocator_never_panics. The engine theorems '
               'are stated for abstract codec / validator / resolver components satisfying comps_ok (each component preserves its own invariant and does not '
               'panic under it). That caveat is DISCHARGED for the concrete model the correspondence check executes: instance_comps_ok '
               '(EngineProofs/WFInstance.v) shows the framing decoder, step encoder, LRU / manual / null resolvers and validators of Engine/Instance.v satisfy '
               'comps_ok, giving C11_instance_reachable_well_formed, C11_instance_decoder_well_formed, C11_instance_no_panic, C11_instance_close_clean for '
               'every configuration, resolver kind and event history (premises only ok_cfg and Forall ok_event). On the implementation the same statements are '
               'judged on every generated history (hostile profile: valid packets in illegal states, adversarial / duplicate / wrong-type acks, structurally '
               'mutated packets, garbage, data while a write is pending, timers at every step, Duration::MAX-like timeouts) by mon_no_panic / mon_close_clean '
               '/ mon_error_absorbing / mon_c11_honest_decode (theorems C11_open_fresh_decoder / C11_open_failed_halts: every successful open installs a fresh framing decoder, a failed open halts; monitor 1104, the converse clause: while no call has failed on a connection and the reference framing decoder - the model decoder proved in Properties/C03 - accepts the bytes read so far, the engine never answers a read with DecodingFailure); they found D6, D9, D10, D14 on the original code (all fixed).',
 'technique': 'machine-checked proof in Coq over the engine model + lock-step correspondence of the extracted model with the implementation + extracted '
              'monitors on the implementation trace'}
