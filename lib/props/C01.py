"""C01 — every accepted operation resolves exactly once, with its own acknowledgement."""

PROP = {'areas': [{'area': 'engine',
            'corpus': ['corpus/engine/d11_half_encoded_connect_service_time.script',
                       'corpus/engine/d12_keep_alive_one_second.script',
                       'corpus/engine/d14_close_with_queued_disconnect.script',
                       'corpus/engine/d21_slow_start_failed_attempt.script',
                       'corpus/engine/d6_ack_timeout_mid_pubrel.script',
                       'corpus/engine/d7_alias_after_failed_validation.script',
                       'corpus/engine/d9_connack_before_connect_flushed.script'],
            'extra': ['100'],
            'only_prop': 'C01',
            'quick': 12000,
            'thorough': 2000000,
            'tie_fields': ['done', 'ops', 'uq', 'rq', 'hq', 'cur', 'pwco', 'ppub', 'pnon', 'nextid', 'outcome']},
           {'area': 'c16',
            'corpus': ['corpus/C16/witnesses.txt'],
            'extra': ['table'],
            'only_sig': '^c16-sound:RDupOnFirstDelivery',
            'quick': 8000,
            'thorough': 400000,
            'tie_sig': '^$'}],
 'coq_target': 'Properties/C01.vo',
 'modelled': 'protocol.rs ProtocolState: handle_user_event, handle_network_event (opened / closed / incoming data / write completion), service '
             '(pending-connack / connected / pending-disconnect), get_next_service_timepoint, reset and every helper they call (operation table, three intake '
             'queues, current operation, pending tables, ack-timeout heap, packet-id allocation, slow start, keep-alive, session handling, all packet '
             'handlers), transcribed in coq/Engine/Model.v; instantiated in Engine/Instance.v with the codec (Codec/*), validation (Validate/Rules.v) and '
             'alias (Alias/*) models',
 'not_modelled': 'HashMap iteration order (completions of one step compared as a set; intake queues compared as multisets between a close and the next '
                 'CONNACK, where the code re-sorts them), VecDeque ring layout used by sort_operation_deque, BinaryHeap order among equal deadlines, Instant '
                 'arithmetic beyond 2^63 ms, logging; user callbacks are assumed not to panic',
 'rule': 'histories = engine configuration (protocol version x 4 offline policies x drain policy x retry limit x resolver x keep-alive / ping timeout / '
         'connect options, packet-id cursor preset near 65535 in 15%) x 100 abstract driver / broker actions drawn from one PRNG state (submit publish / '
         'subscribe / unsubscribe / disconnect with or without ack timeout, open, close, service with buffer capacities 4..4096, write completion, advance to '
         'the reported service time, broker answers by the reference codec: CONNACK with random limits and session flag, acks in / out of order, inbound '
         'publishes QoS 0/1/2 with aliases, PUBREL; hostile profile: unknown / duplicate / wrong-type acks, second CONNACK, server DISCONNECT, garbage; '
         'resets) — every concrete event is executed in lock-step on the implementation (facade Engine) and on the extracted Coq model and the complete '
         'response (outcome, state, completions, packet events, bytes, next service time, full bookkeeping snapshot) is compared (kind=tie, with the set of '
         "diverging fields); the extracted monitors of Engine/Monitors.v judge the IMPLEMENTATION's observation (kind=property, with the first observation at "
         'which the monitor turns false and the script that reproduces it). distinct = distinct command scripts; non-trivial = reached at least one '
         'interesting predicate (x_interesting_predicates_reached) || SUBMISSION PREMISE: the run-level theorems assume that a submitted PUBLISH has DUP = 0; '
         'the clients guarantee it by validate_packet_outbound, which the validation area checks against the real function on every run (a packet with DUP = 1 '
         'or a preset packet id accepted at submission is a failing input for this property).'}

META = {'design_ref': 'DESIGN.md section 7 / C01',
 'level_note': 'Trusted: Coq kernel; the tie (facade engine.rs, harness, OCaml driver incl. the generator); the reference codec used by the simulated broker '
               '(SpecDecodeC2S / SpecEncodeS2C); abstract component hypotheses of the engine theorems (no-panic of codec / validators / resolvers) are '
               'discharged in the codec / validation / alias developments or stated as premises.',
 'level_text': 'Coq theorems over ALL event histories (induction over runs of the engine model, no assumption on events or components): C01_at_most_once (no '
               'operation id appears twice among the completions of a whole run), C01_done_was_submitted (every completion belongs to an earlier submission), '
               'C01_ids_inv_* (ids strictly increasing, never reused), C01_reset / C01_reset_any (after reset every container is empty and every user '
               'operation has exactly one error completion), and for every state: C01_own_ack_kind, C01_suback_own, C01_unsuback_own, C01_puback_own, '
               'C01_pubrec_own, C01_pubcomp_own, C01_flush_value (a completion carries the acknowledgement type of its operation kind, for the packet id it is '
               'pending under, with one code per entry). "Never silently dropped" is now a theorem over all histories: C01_no_silent_drop (abstract '
               'components) and C01_instance_no_silent_drop (the concrete executed model): in every reachable state every incomplete operation is in a queue, '
               'is the current operation, awaits its write completion, or is a value of a pending-ack table (WF invariant + tracking invariant TR of '
               'EngineProofs/WFTrack.v), PROVIDED every submitted packet passed the submission-time validation the clients perform (only "a submitted PUBLISH '
               'has DUP = 0" is used); Example C01_drop_needs_valid_submission shows the proviso is necessary (a DUP publish with a colliding packet id, which '
               'validate_packet_outbound rejects, would be lost by the engine). On the implementation the same statements are judged by the monitors '
               'mon_unique_completion / mon_own_ack / mon_reset_clears / mon_tracked on every generated history.',
 'technique': 'machine-checked proof in Coq over the engine model + lock-step correspondence of the extracted model with the implementation + extracted '
              'monitors on the implementation trace'}
