"""C19 — reconnect back-off: configuration of ./check C19 and MANIFEST texts."""

PROP = {'areas': [{'area': 'c19', 'corpus': ['corpus/C19/d18.txt'], 'quick': 3000, 'thorough': 300000}],
 'coq_target': 'Properties/C19.vo',
 'modelled': 'client/mod.rs MqttClientImpl::new (back-off fields), clamp_reconnect_period, compute_uniform_jitter_period, advance_reconnect_period, reset rule '
             'of transition_to_state; client/config.rs ReconnectOptions::normalize',
 'not_modelled': 'rand::thread_rng (oracle: any value in range), Instant::now() (stability comparison exercised at >= 60 ms from the boundary only)',
 'rule': 'cases = (jitter, base, max, stability) drawn from a boundary pool (0, 1 ns, sub-ms, 1 s +-1 ns, base>max, 2^63 ns, Duration::MAX/2 +-1 ns, '
         'Duration::MAX) x histories of wait / connection(stable for t) / connection(no CONNACK) events, replayed on MqttClientImpl through the facade and on '
         'the extracted model in lock-step (waits and next_reconnect_period compared after every event; jittered waits checked against [0, bound)); distinct = '
         'distinct (configuration, history) descriptions; non-trivial = history of at least 2 events'}

META = {'design_ref': 'DESIGN.md section 7 / C19',
 'level_note': 'Trusted: Coq kernel; the tie (facade, harness, OCaml driver); rand::thread_rng modelled as an arbitrary in-range oracle; the stability '
               'comparison against Instant::now() is exercised only >= 60 ms away from the boundary.',
 'level_text': 'Coq theorems over a model of the back-off state machine: for every accepted configuration and every history of wait / connection-success / '
               "connection-end events the emitted waits equal the formula min(base'*2^k, max') with k restarting exactly after a connection that outlived the "
               'stability period (C19_sequence, C19_kth_wait), never exceed the effective maximum (C19_never_exceeds_max), jitter stays in [0, bound) '
               '(C19_jitter_range), no overflow / empty range (C19_total). The model is run in lock-step against MqttClientImpl on generated configurations '
               'and histories on every check.',
 'technique': 'machine-checked proof in Coq (induction over event histories) + lock-step correspondence of the extracted model with the implementation'}
