"""C18 — ack timeouts and the interrupted-retry limit fire exactly when specified."""

PROP = {'areas': [{'area': 'engine',
            'corpus': ['corpus/engine/d11_half_encoded_connect_service_time.script',
                       'corpus/engine/d12_keep_alive_one_second.script',
                       'corpus/engine/d14_close_with_queued_disconnect.script',
                       'corpus/engine/d21_slow_start_failed_attempt.script',
                       'corpus/engine/d6_ack_timeout_mid_pubrel.script',
                       'corpus/engine/d7_alias_after_failed_validation.script',
                       'corpus/engine/d9_connack_before_connect_flushed.script'],
            'extra': ['100'],
            'only_prop': 'C18',
            'quick': 12000,
            'thorough': 2000000,
            'tie_fields': ['done', 'tmo', 'ops', 'nst', 'ppub', 'pnon']},
           {'area': 'c14r', 'corpus': [], 'only_sig': '^C18:real:', 'quick': 32, 'thorough': 320, 'tie_sig': '^c14r-harness'}],
 'coq_target': 'Properties/C18.vo',
 'modelled': 'protocol.rs ProtocolState: handle_user_event, handle_network_event (opened / closed / incoming data / write completion), service '
             '(pending-connack / connected / pending-disconnect), get_next_service_timepoint, reset and every helper they call (operation table, three intake '
             'queues, current operation, pending tables, ack-timeout heap, packet-id allocation, slow start, keep-alive, session handling, all packet '
             'handlers), transcribed in coq/Engine/Model.v; instantiated in Engine/Instance.v with the codec (Codec/*), validation (Validate/Rules.v) and '
             'alias (Alias/*) models',
 'not_modelled': 'HashMap iteration order (completions of one step compared as a set; intake queues compared as multisets between a close and the next '
                 'CONNACK, where the code re-sorts them), VecDeque ring layout used by sort_operation_deque, BinaryHeap order among equal deadlines, Instant '
                 'arithmetic beyond 2^63 ms, logging; user callbacks are assumed not to panic',
 'rule': 'histories = engine configuration (protocol version x 4 offline policies x drain policy x retry limit x resolver x keep-alive / ping timeout / '
         'connect options, packet-id cursor preset near 65535 in 15%) x 100 abstract driver / broker actions drawn from one PRNG state (submit publish / '
         'subscribe / unsubscribe / disconnect with or without ack timeout, open, close, service with buffer capacities 4..4096, write completion, advance to '
         'the reported service time, broker answers by the reference codec: CONNACK with random limits and session flag, acks in / out of order, inbound '
         'publishes QoS 0/1/2 with aliases, PUBREL; hostile profile: unknown / duplicate / wrong-type acks, second CONNACK, server DISCONNECT, garbage; '
         'resets) — every concrete event is executed in lock-step on the implementation (facade Engine) and on the extracted Coq model and the complete '
         'response (outcome, state, completions, packet events, bytes, next service time, full bookkeeping snapshot) is compared (kind=tie, with the set of '
         "diverging fields); the extracted monitors of Engine/Monitors.v judge the IMPLEMENTATION's observation (kind=property, with the first observation at "
         'which the monitor turns false and the script that reproduces it). distinct = distinct command scripts; non-trivial = reached at least one '
         'interesting predicate (x_interesting_predicates_reached) || REAL DRIVERS, REAL TIME: area c14r, family acktmo: a QoS 1 publish with ack timeout T '
         '(200..400 ms) against a broker that never acknowledges resolves with AckTimeout, not before T, within T + 1.5 s.'}

META = {'design_ref': 'DESIGN.md section 7 / C18',
 'level_note': 'Trusted: Coq kernel; the tie (facade engine.rs, harness, OCaml driver incl. the generator); the reference codec used by the simulated broker '
               '(SpecDecodeC2S / SpecEncodeS2C); abstract component hypotheses of the engine theorems (no-panic of codec / validators / resolvers) are '
               'discharged in the codec / validation / alias developments or stated as premises.',
 'level_text': 'One-step Coq theorems for every state: C18_timeout_exact / C18_timeout_sound (a service call fails exactly the operations whose record is due, '
               'with AckTimeout, and nothing else), C18_deadline_armed / C18_deadline_not_armed (the record is armed with now + T when the packet is '
               'completely written, only for operations with a timeout), C18_retry_count / C18_retry_limit / C18_retry_sound / C18_no_limit (interruption '
               'counting and failure exactly above the limit inside a close). Run-level Coq theorems (EngineProofs/TimersRun*.v; every state reachable from '
               'init by ANY event history; hypotheses only the component invariants, ok_cfg, Forall ok_event; C18_instance_* = the concrete engine with the '
               'component hypotheses discharged): C18_run_armed (every operation awaiting an acknowledgement that is a user operation with timeout T, '
               'completely written at w with w + T in the clock range, has the record (i, w + T)) and C18_run_timeout_fires (hence the first successful '
               'service call at or after w + T removes it) and C18_run_timeout_acktimeout (and reports (i, AckTimeout) for it whenever the operation is not '
               'seated / queued for a follow-up packet, e.g. every QoS 1 publish or subscribe awaiting its ack; for a QoS 2 publish whose PUBREL is queued in '
               'the same call only the removal is proved); C18_run_records_sound / C18_epoch_spec / C18_run_record_written / C18_run_no_record / '
               'C18_run_tmo_empty (every record is w + T for the time w of a service call made after the last close / reset and the ack timeout T of a user '
               'operation whose latest complete write was made by a service call after the last close / reset: queued time and writes on earlier connections '
               'arm nothing; operations without timeout, internal or never written have no record; no record in Disconnected / PendingConnack); '
               'C18_run_intr_count (interruption_count = the number of closes of the history that caught the operation in the pending tables, ghost counter by '
               'recursion over the history), C18_run_limit (never above the limit), C18_run_maxintr_sound / C18_run_maxintr_complete '
               '(MaxInterruptedRetriesExceeded only from a close that catches a user operation whose count is exactly the limit, i.e. its (limit+1)-th '
               'interruption, and that close removes the operation). C18_run_acktimeout_sound / C18_instance_acktimeout_sound (never early, never without a '
               'timeout: an AckTimeout completion of a service call at time now comes from a due record, now >= w + T for the time w of a service call made '
               'after the last close / reset and the ack timeout T of the user operation; the generic form assumes that the abstract outbound validator never '
               'answers with the AckTimeout kind, the instance form proves it for the concrete validator). Not proved at run level (monitor-only, partial): '
               "that w in C18_run_acktimeout_sound is the time of a complete write of THIS operation (the records-sound theorems give it for the record's "
               'latest write only), and that the operation removed by C18_run_maxintr_complete is reported with exactly MaxInterruptedRetriesExceeded when '
               "another failure of it happens in the same close (mon_c18_timeout / mon_c18_retry judge both on the implementation trace); the state form 'a "
               "record exists only for an operation currently in a sent place' is not proved; 'written on this connection' is identified by the time of the "
               'writing service call, exact when service times are distinct. Monitors on the implementation trace: mon_c18_timeout (an AckTimeout completion '
               'only for an operation with a timeout, never before the deadline of one of its completely written packets), mon_c18_late (after every '
               'successful service call at time t no operation remains incomplete whose packet was completely written at w with w + T <= t: not later than the '
               "first service at or after the deadline), mon_c18_retry. That the DRIVERS turn the engine's reported service times into calls is sampled in "
               'real time on the real tokio / threaded clients (area c14r: keep-alive 1 s with an answering / a silent broker, QoS 1 publish with an ack '
               'timeout against a broker that never acknowledges; generous margins, inconclusive runs discarded).',
 'technique': 'machine-checked proof in Coq over the engine model + lock-step correspondence of the extracted model with the implementation + extracted '
              'monitors on the implementation trace'}
