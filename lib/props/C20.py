"""C20 — AWS builder (gneiss-mqtt-aws): configuration of ./check C20 and MANIFEST texts."""

PROP = {'areas': [{'area': 'c20', 'corpus': ['corpus/C20/cases.txt'], 'quick': 48000, 'thorough': 4000000}],
 'coq_target': 'Properties/C20.vo',
 'modelled': 'gneiss-mqtt-aws/src/lib.rs AwsCustomAuthOptionsBuilder::build_query_params / build (438-479), AwsClientBuilder::build_final_connect_options '
             '(813-833, client-id rule of fix commit cf4ca1c), apply_aws_defaults (864-879), the option defaults ConnectOptionsBuilder::new / '
             'MqttClientOptionsBuilder::new (gneiss-mqtt/src/client/config.rs 598-617, 980-993), ConnectOptions / MqttClientOptions field for field; '
             'urlencoding 2.1.3 encode / encode_binary (enc.rs)',
 'not_modelled': 'uuid::Uuid::new_v4 (oracle: any non-empty string; the implementation\'s value is checked for version-4 shape and freshness); the six lines of '
                 'build_tokio / build_threaded that choose between the registered user options and the library defaults and hand the results to the client '
                 'builder (the two functions are tied separately, the defaults are tied as constants); TLS / endpoint / websocket-sigv4 set-up; how AWS IoT '
                 'Core itself parses the username (reference parser: RFC 3986 query, pairs split at & and the first =, percent-decoding with + literal); Rust '
                 '&str inputs are valid UTF-8 (the model quantifies over all byte strings)',
 'rule': 'every run: the compiled urlencoding crate\'s encoding of each of the 256 single bytes against the model\'s table (exhaustive), the two library default '
         'option values against the model\'s constants, the corpus; then generated cases from one PRNG state: 45% custom-auth inputs (authorizer name / token key / '
         'token value from profiles safe, caller-URI-encoded, unsafe value, unsafe name or key, anything - alphabet with & = # % + / ? space quotes controls '
         'multi-byte UTF-8 and %XX escapes; signature raw base64 with + / =, raw without specials, pre-encoded, empty, ambiguous such as %2 or a%2Bb+c; usernames '
         'absent / empty / plain / containing ? or & =; passwords absent / empty / binary), 25% connect options with every field toggled independently (client id '
         'absent / empty / present; with and without custom auth), 20% client options (both protocol modes x drain policy set/unset x retry limit set/unset x '
         'other fields from boundary pools), 10% byte strings for encode. Each case runs on gneiss-mqtt-aws through the hooks and on the extracted model; '
         'outputs compared exactly (kind=tie); the property monitors (independent OCaml query parser, token-wise option comparison, UUID shape + freshness) run on '
         'the implementation\'s output (kind=property); distinct = distinct case lines; non-trivial = not the empty configuration',
 }

META = {'design_ref': 'DESIGN.md section 7 / C20',
 'level_note': 'Trusted: Coq kernel; the tie (hooks gneiss_mqtt_aws::verif + gneiss_mqtt::verif::options, harness ext_aws.rs, OCaml driver area_c20.ml); the UUID '
               'generator is an oracle; the reference query-string parser stands for the server side. Known finding D20 (token value inserted raw) is excluded by '
               'the query_safe hypothesis and proved as C20_query_wellformed_refuted.',
 'level_text': 'Coq theorems over a field-for-field model of the AWS builder glue: the signature is percent-encoded exactly once for every raw base64 or '
               'pre-encoded input and decodes back (C20_signature_once, C20_signature_never_twice, C20_decode_encode); for query-safe (or, as documented, '
               'caller-URI-encoded) authorizer name / token key and query-safe token value the username is user?query with a well-formed query that splits '
               'and decodes to exactly the configured parameters in order (C20_query_wellformed, C20_query_wellformed_encoded, C20_username_split); the final '
               'client id is never empty, the user\'s iff present and non-empty, else the generator\'s (C20_client_id, C20_build_client_id); every other connect '
               'and client option is unchanged field by field (C20_options_preserved, C20_client_options_preserved); OneAtATime / retry limit 2 are applied iff '
               'protocol = 3.1.1 and neither was set (C20_defaults_iff). Refuted for arbitrary token values (C20_query_wellformed_refuted, D20). The model is '
               'run against the real crate on generated inputs and on the exhaustive single-byte encode table on every check.',
 'technique': 'machine-checked proof in Coq (induction over byte strings, exhaustive 256-byte case analysis by vm_compute) + exact correspondence of the '
              'extracted model with the implementation + exhaustive table'}
