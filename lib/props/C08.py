"""C08 — service-time contract never strands work."""

PROP = {'areas': [{'area': 'engine',
            'corpus': ['corpus/engine/d11_half_encoded_connect_service_time.script',
                       'corpus/engine/d12_keep_alive_one_second.script',
                       'corpus/engine/d14_close_with_queued_disconnect.script',
                       'corpus/engine/d21_slow_start_failed_attempt.script',
                       'corpus/engine/d6_ack_timeout_mid_pubrel.script',
                       'corpus/engine/d7_alias_after_failed_validation.script',
                       'corpus/engine/d9_connack_before_connect_flushed.script'],
            'extra': ['100'],
            'only_prop': 'C08',
            'quick': 12000,
            'thorough': 2000000,
            'tie_fields': ['nst', 'out', 'pwc', 'cur', 'hq', 'uq', 'rq', 'tmo', 'pingto', 'nping', 'connackto', 'st']},
           {'area': 'c14r', 'corpus': [], 'only_sig': '^C(14|18):real:', 'quick': 32, 'thorough': 320, 'tie_sig': '^c14r-harness'}],
 'coq_target': 'Properties/C08.vo',
 'modelled': 'protocol.rs ProtocolState: handle_user_event, handle_network_event (opened / closed / incoming data / write completion), service '
             '(pending-connack / connected / pending-disconnect), get_next_service_timepoint, reset and every helper they call (operation table, three intake '
             'queues, current operation, pending tables, ack-timeout heap, packet-id allocation, slow start, keep-alive, session handling, all packet '
             'handlers), transcribed in coq/Engine/Model.v; instantiated in Engine/Instance.v with the codec (Codec/*), validation (Validate/Rules.v) and '
             'alias (Alias/*) models',
 'not_modelled': 'HashMap iteration order (completions of one step compared as a set; intake queues compared as multisets between a close and the next '
                 'CONNACK, where the code re-sorts them), VecDeque ring layout used by sort_operation_deque, BinaryHeap order among equal deadlines, Instant '
                 'arithmetic beyond 2^63 ms, logging; user callbacks are assumed not to panic',
 'rule': 'histories = engine configuration (protocol version x 4 offline policies x drain policy x retry limit x resolver x keep-alive / ping timeout / '
         'connect options, packet-id cursor preset near 65535 in 15%) x 100 abstract driver / broker actions drawn from one PRNG state (submit publish / '
         'subscribe / unsubscribe / disconnect with or without ack timeout, open, close, service with buffer capacities 4..4096, write completion, advance to '
         'the reported service time, broker answers by the reference codec: CONNACK with random limits and session flag, acks in / out of order, inbound '
         'publishes QoS 0/1/2 with aliases, PUBREL; hostile profile: unknown / duplicate / wrong-type acks, second CONNACK, server DISCONNECT, garbage; '
         'resets) — every concrete event is executed in lock-step on the implementation (facade Engine) and on the extracted Coq model and the complete '
         'response (outcome, state, completions, packet events, bytes, next service time, full bookkeeping snapshot) is compared (kind=tie, with the set of '
         "diverging fields); the extracted monitors of Engine/Monitors.v judge the IMPLEMENTATION's observation (kind=property, with the first observation at "
         'which the monitor turns false and the script that reproduces it). distinct = distinct command scripts; non-trivial = reached at least one '
         'interesting predicate (x_interesting_predicates_reached) || REAL DRIVERS, REAL TIME: area c14r (all families): the drivers service the engine at the '
         'times it reports (pings go out, keep-alive failures and ack timeouts happen).'}

META = {'design_ref': 'DESIGN.md section 7 / C08',
 'level_note': 'Trusted: Coq kernel; the tie (facade engine.rs, harness, OCaml driver incl. the generator); the reference codec used by the simulated broker '
               '(SpecDecodeC2S / SpecEncodeS2C); abstract component hypotheses of the engine theorems (no-panic of codec / validators / resolvers) are '
               'discharged in the codec / validation / alias developments or stated as premises.',
 'level_text': 'Coq theorems for every engine state: C08_nst_queue_mirrors_dequeue / C08_dequeue_iff (the reported time is "now" exactly when dequeue would '
               'hand out an operation or an operation is half encoded), C08_pending_write_blocks, C08_reported_time_is_min, C08_no_lost_wakeup (work that can '
               'be performed now => reported time <= now; both under the premise that a CONNACK deadline is set while PendingConnack), their run-level forms '
               'C08_reported_time_is_min_run / C08_no_lost_wakeup_run WITHOUT that premise (it is a conjunct of the engine well-formedness invariant, '
               'EngineProofs/WF*.v + SvcTimeWF.v: they hold in every state reachable by any event history, for components satisfying comps_ok) and '
               'C08_instance_reported_time_is_min / C08_instance_no_lost_wakeup (the same for the concrete engine of Engine/Instance.v, only ok_cfg / ok_event '
               'left), C08_timers_honoured (the reported time is not later than any armed ping / ping-timeout / ack-timeout / CONNACK deadline). The liveness '
               'half (bounded completion against a responsive broker) is NOT proved: it is explored by the lock-step histories whose simulated driver services '
               'only at reported times, with monitors mon_c08_wakeup and mon_c08_spin — partial. Monitors on the implementation trace: mon_c08_wakeup (work '
               'that can be sent now -> service time now), mon_c08_spin (no service-me-now that changes nothing), mon_c08_timers (the reported time is never '
               'later than the CONNACK deadline, the PINGRESP deadline, the next ping time, or w + T of any incomplete operation completely written at w with '
               "ack timeout T). That the DRIVERS turn the engine's reported service times into calls is sampled in real time on the real tokio / threaded "
               'clients (area c14r: keep-alive 1 s with an answering / a silent broker, QoS 1 publish with an ack timeout against a broker that never '
               'acknowledges; generous margins, inconclusive runs discarded).',
 'technique': 'machine-checked proof in Coq over the engine model + lock-step correspondence of the extracted model with the implementation + extracted '
              'monitors on the implementation trace'}
