"""C14 — keep-alive: pings in time, dead peers detected, live peers never timed out."""

PROP = {'areas': [{'also': ['C08:monitor:803'],
            'area': 'engine',
            'corpus': ['corpus/engine/d11_half_encoded_connect_service_time.script',
                       'corpus/engine/d12_keep_alive_one_second.script',
                       'corpus/engine/d14_close_with_queued_disconnect.script',
                       'corpus/engine/d21_slow_start_failed_attempt.script',
                       'corpus/engine/d6_ack_timeout_mid_pubrel.script',
                       'corpus/engine/d7_alias_after_failed_validation.script',
                       'corpus/engine/d9_connack_before_connect_flushed.script'],
            'extra': ['100'],
            'only_prop': 'C14',
            'quick': 12000,
            'thorough': 2000000,
            'tie_fields': ['nst', 'out', 'outcome', 'pingto', 'nping', 'st']},
           {'area': 'c14r', 'corpus': [], 'only_sig': '^C14:real:', 'quick': 32, 'thorough': 320, 'tie_sig': '^c14r-harness'}],
 'coq_target': 'Properties/C14.vo',
 'modelled': 'protocol.rs ProtocolState: handle_user_event, handle_network_event (opened / closed / incoming data / write completion), service '
             '(pending-connack / connected / pending-disconnect), get_next_service_timepoint, reset and every helper they call (operation table, three intake '
             'queues, current operation, pending tables, ack-timeout heap, packet-id allocation, slow start, keep-alive, session handling, all packet '
             'handlers), transcribed in coq/Engine/Model.v; instantiated in Engine/Instance.v with the codec (Codec/*), validation (Validate/Rules.v) and '
             'alias (Alias/*) models',
 'not_modelled': 'HashMap iteration order (completions of one step compared as a set; intake queues compared as multisets between a close and the next '
                 'CONNACK, where the code re-sorts them), VecDeque ring layout used by sort_operation_deque, BinaryHeap order among equal deadlines, Instant '
                 'arithmetic beyond 2^63 ms, logging; user callbacks are assumed not to panic',
 'rule': 'histories = engine configuration (protocol version x 4 offline policies x drain policy x retry limit x resolver x keep-alive / ping timeout / '
         'connect options, packet-id cursor preset near 65535 in 15%) x 100 abstract driver / broker actions drawn from one PRNG state (submit publish / '
         'subscribe / unsubscribe / disconnect with or without ack timeout, open, close, service with buffer capacities 4..4096, write completion, advance to '
         'the reported service time, broker answers by the reference codec: CONNACK with random limits and session flag, acks in / out of order, inbound '
         'publishes QoS 0/1/2 with aliases, PUBREL; hostile profile: unknown / duplicate / wrong-type acks, second CONNACK, server DISCONNECT, garbage; '
         'resets) — every concrete event is executed in lock-step on the implementation (facade Engine) and on the extracted Coq model and the complete '
         'response (outcome, state, completions, packet events, bytes, next service time, full bookkeeping snapshot) is compared (kind=tie, with the set of '
         "diverging fields); the extracted monitors of Engine/Monitors.v judge the IMPLEMENTATION's observation (kind=property, with the first observation at "
         'which the monitor turns false and the script that reproduces it). distinct = distinct command scripts; non-trivial = reached at least one '
         'interesting predicate (x_interesting_predicates_reached) || REAL DRIVERS, REAL TIME: area c14r, families ping / pingdead: at least two PINGREQs in '
         '3.5 s of idle connection with keep-alive 1 s; a silent broker gets the connection failed within 3 s.'}

META = {'design_ref': 'DESIGN.md section 7 / C14',
 'level_note': 'Trusted: Coq kernel; the tie (facade engine.rs, harness, OCaml driver incl. the generator); the reference codec used by the simulated broker '
               '(SpecDecodeC2S / SpecEncodeS2C); abstract component hypotheses of the engine theorems (no-panic of codec / validators / resolvers) are '
               'discharged in the codec / validation / alias developments or stated as premises.',
 'level_text': 'Coq theorems for every state: C14_deadline (a ping armed at service time now has deadline now + min(ping timeout, K*500 ms)), C14_idle, '
               'C14_timeout (deadline reached => ConnectionClosed), C14_live / C14_live_no_timeout (a PINGRESP clears the deadline, after which no keep-alive '
               'failure occurs), C14_connack / C14_negotiated (first ping K seconds after CONNACK, K = server value else client value), C14_zero / '
               'C14_zero_no_ping (K = 0: no ping is ever created). Run-level Coq theorems (EngineProofs/TimersRun*.v, TimersRunPing.v; every state reachable '
               'from init by ANY event history; hypotheses only the component invariants, ok_cfg, Forall ok_event; C14_instance_* = the concrete engine): '
               'C14_run_ka_connected (while Connected with negotiated K > 0 a next-ping time exists and a pending PINGRESP deadline t satisfies t + K*1000 <= '
               'next ping + min(ping timeout, K*500), so it is always due before the next ping; with K = 0 there is no ping time, no deadline, and the '
               'keep-alive part of every service call is the identity: no PINGREQ, no keep-alive failure), C14_run_ka_unconnected (neither deadline exists in '
               'Disconnected / PendingConnack: none outlives its connection), C14_run_ping_deadline / C14_arm_ghost_spec (a pending deadline equals now0 + '
               'min(ping timeout, K*500) where now0, a ghost defined by recursion over the history, is the time of the service call before which no deadline '
               'was pending and since which one has been pending without interruption, i.e. no PINGRESP processed since), C14_run_timely_no_timeout (if every '
               'service call made while the PINGREQ of time now0 is unanswered happens before now0 + min(ping timeout, K*500) - the peer answers before the '
               'deadline - no service call of the history reports the keep-alive failure). The trace-level bound "never more than K seconds without a '
               'transmission when the driver services at reported times" is explored (monitors mon_c14_deadline, mon_c14_live, mon_c14_zero), not proved — '
               'partial. Monitors on the implementation trace: mon_c14_deadline (a PINGRESP deadline armed at time t equals t + min(ping timeout, K*500 ms); a '
               'keep-alive failure only at or after an armed deadline), mon_c14_live (a PINGRESP clears the deadline), mon_c14_zero (K = 0: no PINGREQ and no '
               'keep-alive failure; no ping time or PINGRESP deadline survives a connection close), mon_c14_pings (completeness half: while Connected with K > '
               '0 a next ping time exists and is at most K seconds after the latest transmission / CONNACK; a service call at or after it arms a PINGRESP '
               "deadline; a service call at or after an armed deadline fails the connection). That the DRIVERS turn the engine's reported service times into "
               'calls is sampled in real time on the real tokio / threaded clients (area c14r: keep-alive 1 s with an answering / a silent broker, QoS 1 '
               'publish with an ack timeout against a broker that never acknowledges; generous margins, inconclusive runs discarded). The clause of '
               'mon_c08_timers about the PINGRESP deadline and the next ping time (the engine asks to be serviced no later than those) is also attributed to '
               'this property: a keep-alive failure that the drivers are never woken for does not happen "at that deadline".',
 'technique': 'machine-checked proof in Coq over the engine model + lock-step correspondence of the extracted model with the implementation + extracted '
              'monitors on the implementation trace'}
