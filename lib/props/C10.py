"""C10 — submission order; retransmissions first after reconnect."""

PROP = {'areas': [{'area': 'engine',
            'corpus': ['corpus/engine/c10_close_mid_pubrel_carrier.script',
                       'corpus/engine/d11_half_encoded_connect_service_time.script',
                       'corpus/engine/d12_keep_alive_one_second.script',
                       'corpus/engine/d14_close_with_queued_disconnect.script',
                       'corpus/engine/d21_slow_start_failed_attempt.script',
                       'corpus/engine/d6_ack_timeout_mid_pubrel.script',
                       'corpus/engine/d7_alias_after_failed_validation.script',
                       'corpus/engine/d9_connack_before_connect_flushed.script'],
            'extra': ['100'],
            'only_prop': 'C10',
            'quick': 12000,
            'thorough': 2000000,
            'tie_fields': ['out', 'uq', 'rq', 'hq', 'cur', 'nextid']}],
 'coq_target': 'Properties/C10.vo',
 'modelled': 'protocol.rs ProtocolState: handle_user_event, handle_network_event (opened / closed / incoming data / write completion), service '
             '(pending-connack / connected / pending-disconnect), get_next_service_timepoint, reset and every helper they call (operation table, three intake '
             'queues, current operation, pending tables, ack-timeout heap, packet-id allocation, slow start, keep-alive, session handling, all packet '
             'handlers), transcribed in coq/Engine/Model.v; instantiated in Engine/Instance.v with the codec (Codec/*), validation (Validate/Rules.v) and '
             'alias (Alias/*) models',
 'not_modelled': 'HashMap iteration order (completions of one step compared as a set; intake queues compared as multisets between a close and the next '
                 'CONNACK, where the code re-sorts them), VecDeque ring layout used by sort_operation_deque, BinaryHeap order among equal deadlines, Instant '
                 'arithmetic beyond 2^63 ms, logging; user callbacks are assumed not to panic',
 'rule': 'histories = engine configuration (protocol version x 4 offline policies x drain policy x retry limit x resolver x keep-alive / ping timeout / '
         'connect options, packet-id cursor preset near 65535 in 15%) x 100 abstract driver / broker actions drawn from one PRNG state (submit publish / '
         'subscribe / unsubscribe / disconnect with or without ack timeout, open, close, service with buffer capacities 4..4096, write completion, advance to '
         'the reported service time, broker answers by the reference codec: CONNACK with random limits and session flag, acks in / out of order, inbound '
         'publishes QoS 0/1/2 with aliases, PUBREL; hostile profile: unknown / duplicate / wrong-type acks, second CONNACK, server DISCONNECT, garbage; '
         'resets) — every concrete event is executed in lock-step on the implementation (facade Engine) and on the extracted Coq model and the complete '
         'response (outcome, state, completions, packet events, bytes, next service time, full bookkeeping snapshot) is compared (kind=tie, with the set of '
         "diverging fields); the extracted monitors of Engine/Monitors.v judge the IMPLEMENTATION's observation (kind=property, with the first observation at "
         'which the monitor turns false and the script that reproduces it). distinct = distinct command scripts; non-trivial = reached at least one '
         'interesting predicate (x_interesting_predicates_reached)'}

META = {'design_ref': 'DESIGN.md section 7 / C10',
 'level_note': 'Trusted: Coq kernel; the tie (facade engine.rs, harness, OCaml driver incl. the generator); the reference codec used by the simulated broker '
               '(SpecDecodeC2S / SpecEncodeS2C); abstract component hypotheses of the engine theorems (no-panic of codec / validators / resolvers) are '
               'discharged in the codec / validation / alias developments or stated as premises.',
 'level_text': 'RUN-LEVEL Coq theorems (induction over every event history from the initial state; hypotheses comps_ok - discharged in the C10_instance_* versions -, ok_cfg, ok_event): in every reachable Connected state the resubmit queue and the user queue are sorted by operation id (C10_run_queues_sorted_when_connected); the operations a service call seats are a legal priority-ordered draining of the three queues - head of the high-priority queue, head of the resubmit queue only when that is empty, head of the user queue only when both are empty (C10_service_loop_seats, C10_service_seats_legal, any state) - hence prefixes of the two intake queues, with the whole resubmit queue seated before the first user-queue operation (C10_service_seats_prefix, C10_service_retransmissions_first, any state); at every reachable Connected state the seated ids of either queue are sorted, not larger than anything left behind and smaller than the id of any later submission (C10_run_submission_order); along any run segment that stays Connected the user-queue seats of successive service calls followed by what is left are sorted, and the retransmissions come first across calls (C10_run_connected_segment_order). The seat trace is an instrumented copy of the service loop proved to compute the very same result (C10_service_loop_trace_is_the_loop). STRICT ORDER (unconditional, same hypotheses): the placement invariant PL - an operation id occurs at most once in user queue ++ resubmit queue ++ written list ++ pending subscribe/unsubscribe table ++ pending publish table; an id in the high-priority queue or the encoder seat is either a pending QoS 2 publish carrying its PUBREL (the one legitimate double placement, it does occur: C10_run_example_triple_placement) or is in none of those places and, while its operation exists, occurs only once in high-priority queue ++ seat - holds initially and is preserved by every event (C10_placement_invariant_step), hence in every reachable state (C10_run_places_once); it implies the premise CP of the close lemma (C10_placement_implies_close_premise, C10_run_close_premise_holds), so in every reachable state the two intake queues hold no id twice (C10_run_queues_duplicate_free) and in every reachable Connected state both are STRICTLY increasing and disjoint (C10_run_queues_strictly_sorted); the ids a service call seats are strictly increasing, strictly smaller than anything left behind, never seated twice and no longer in a queue (C10_run_submission_order_strict); over a Connected segment the user-queue seats followed by what is left are strictly increasing (C10_run_connected_segment_order_strict); a close taken while the PUBREL carrier is half-seated re-queues it once (C10_run_example_close_mid_pubrel); instance versions C10_instance_queues_strictly_sorted / _queues_duplicate_free / _submission_order_strict / _places_once / _connected_segment_order_strict. The earlier conditional theorems (names ending in _partial: steps other than a close, first connection, close under CP, run under CP at the closes) are kept and are subsumed by these. ONE-STEP theorems: dequeue priority and blocking heads, submissions appended with increasing ids, CONNACK sorts both intake queues into permutations of what they held. Wire order per connection is additionally the monitor mon_c10 on sampled histories; the VecDeque layout fact used by sort_operation_deque is covered by the tie only',
 'technique': 'machine-checked proof in Coq over the engine model + lock-step correspondence of the extracted model with the implementation + extracted '
              'monitors on the implementation trace'}
