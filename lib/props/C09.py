"""C09 — flow control."""

PROP = {'areas': [{'area': 'engine',
            'corpus': ['corpus/engine/d11_half_encoded_connect_service_time.script',
                       'corpus/engine/d12_keep_alive_one_second.script',
                       'corpus/engine/d14_close_with_queued_disconnect.script',
                       'corpus/engine/d21_slow_start_failed_attempt.script',
                       'corpus/engine/d6_ack_timeout_mid_pubrel.script',
                       'corpus/engine/d7_alias_after_failed_validation.script',
                       'corpus/engine/d9_connack_before_connect_flushed.script'],
            'extra': ['100'],
            'only_prop': 'C09',
            'quick': 12000,
            'thorough': 2000000,
            'tie_fields': ['ppub', 'pnon', 'ss', 'out', 'uq', 'rq', 'cur', 'ops']}],
 'coq_target': 'Properties/C09.vo',
 'modelled': 'protocol.rs ProtocolState: handle_user_event, handle_network_event (opened / closed / incoming data / write completion), service '
             '(pending-connack / connected / pending-disconnect), get_next_service_timepoint, reset and every helper they call (operation table, three intake '
             'queues, current operation, pending tables, ack-timeout heap, packet-id allocation, slow start, keep-alive, session handling, all packet '
             'handlers), transcribed in coq/Engine/Model.v; instantiated in Engine/Instance.v with the codec (Codec/*), validation (Validate/Rules.v) and '
             'alias (Alias/*) models',
 'not_modelled': 'HashMap iteration order (completions of one step compared as a set; intake queues compared as multisets between a close and the next '
                 'CONNACK, where the code re-sorts them), VecDeque ring layout used by sort_operation_deque, BinaryHeap order among equal deadlines, Instant '
                 'arithmetic beyond 2^63 ms, logging; user callbacks are assumed not to panic',
 'rule': 'histories = engine configuration (protocol version x 4 offline policies x drain policy x retry limit x resolver x keep-alive / ping timeout / '
         'connect options, packet-id cursor preset near 65535 in 15%) x 100 abstract driver / broker actions drawn from one PRNG state (submit publish / '
         'subscribe / unsubscribe / disconnect with or without ack timeout, open, close, service with buffer capacities 4..4096, write completion, advance to '
         'the reported service time, broker answers by the reference codec: CONNACK with random limits and session flag, acks in / out of order, inbound '
         'publishes QoS 0/1/2 with aliases, PUBREL; hostile profile: unknown / duplicate / wrong-type acks, second CONNACK, server DISCONNECT, garbage; '
         'resets) — every concrete event is executed in lock-step on the implementation (facade Engine) and on the extracted Coq model and the complete '
         'response (outcome, state, completions, packet events, bytes, next service time, full bookkeeping snapshot) is compared (kind=tie, with the set of '
         "diverging fields); the extracted monitors of Engine/Monitors.v judge the IMPLEMENTATION's observation (kind=property, with the first observation at "
         'which the monitor turns false and the script that reproduces it). distinct = distinct command scripts; non-trivial = reached at least one '
         'interesting predicate (x_interesting_predicates_reached)'}

META = {'design_ref': 'DESIGN.md section 7 / C09',
 'level_note': 'Trusted: Coq kernel; the tie (facade engine.rs, harness, OCaml driver incl. the generator); the reference codec used by the simulated broker '
               '(SpecDecodeC2S / SpecEncodeS2C); abstract component hypotheses of the engine theorems (no-panic of codec / validators / resolvers) are '
               'discharged in the codec / validation / alias developments or stated as premises.',
 'level_text': 'Coq theorems: C09_receive_max (UNCONDITIONAL, over ALL event histories a driver can produce — service clock below 2^62 ms, buffer of '
               'at least 4 bytes, ping timeout below 2^62 ms; no assumption on event order, server bytes or submitted packets: while Connected, the number of '
               'in-flight QoS 1/2 publishes never exceeds the negotiated Receive Maximum), stated for any codec / validator / resolver components satisfying '
               'comps_ok, and C09_instance_receive_max, the same for the concrete engine of Engine/Instance.v that the correspondence check executes (component '
               'hypotheses discharged in EngineProofs/WFInstance.v). They are obtained in EngineProofs/FlowWF.v from C09_receive_max_given (the bound over all '
               'no-panic runs given the packet-id facts pid_facts) by discharging pid_facts with the engine well-formedness invariant (WF_pid_facts: conjuncts '
               'w_bound, w_hq, w_ppub of EngineProofs/WF*.v) and the no-panic premise with C11_no_panic. C09_flow_init / C09_flow_step / C09_flow_count (the '
               'inductive flow invariant whose count clause includes the current operation), C09_ss_count_exact (unconditional, over all runs: while Connected '
               'with the one-at-a-time policy the slow-start counter equals the number of marked live operations), C09_slow_start_gate and C09_receive_max_gate '
               '(single step: the dequeue rules). Wire/snapshot monitors mon_c09_recvmax and mon_c09_slowstart judge every history on the implementation (they '
               'found D21, fixed by /repo c0808c3).',
 'technique': 'machine-checked proof in Coq over the engine model + lock-step correspondence of the extracted model with the implementation + extracted '
              'monitors on the implementation trace'}
