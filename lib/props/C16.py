"""C16 — validation: nothing breaking the server's limits or the static packet rules is sent, nothing conforming is
rejected.  Configuration of ./check C16 and MANIFEST texts."""

PROP = {'areas': [{'area': 'c16', 'corpus': ['corpus/C16/witnesses.txt'], 'extra': ['table'], 'quick': 16000, 'thorough': 1600000},
           {'area': 'engine',
            'corpus': [],
            'extra': ['100'],
            'only_prop': 'C16',
            'quick': 12000,
            'thorough': 2000000,
            'tie_fields': ['out', 'done', 'outcome']}],
 'coq_target': 'Properties/C16.vo',
 'modelled': 'validate.rs (validate_packet_outbound / _outbound_internal / _inbound_internal, validate_user_properties, length helpers, ack macros, '
             'is_valid_topic, compute_topic_filter_properties, is_valid_topic_filter_internal); the per-packet validate_*_outbound / _outbound_internal / '
             '_inbound_internal of mqtt/{auth,connack,connect,disconnect,publish,subscribe,unsubscribe,puback,pubrec,pubrel,pubcomp,suback,unsuback}.rs; the '
             'MQTT 5 length computations through Codec/ImplEncode.v',
 'not_modelled': 'error messages; u32 overflow of the size sum for packets of 4 GiB and more; the engine-level half (which operations reach validation, '
                 'completion with PacketValidationFailure) belongs to the engine model',
 'rule': 'cases = (negotiated settings, connect options, alias resolution, submitted packet, packet id bound by the engine): PUBLISH / SUBSCRIBE / UNSUBSCRIBE '
         '/ DISCONNECT / acks / AUTH / CONNECT / PINGREQ and server-only kinds, every field at, below and above its limit (65535/65536-byte strings rarely), '
         'topic and filter strings over the token alphabet {/, +, #, $share, $, a, b, multi-byte char, NUL}, x CONNACK capabilities (max qos 0/1/2, retain, '
         "wildcard, shared, subscription ids, maximum packet size at the packet's size -1/0/+1); static verdict on the submitted packet and send-time verdict "
         'on the id-bound packet compared model vs implementation (tie); monitor: accepted => Spec.violations = [] and Spec.conforms => accepted (property). '
         'Plus the EXHAUSTIVE filter table: every concatenation of at most 6 tokens from {/, +, #, $share, a, b} (55 987 strings) x 12 combinations of '
         'wildcard / shared availability and no_local against the model and against Spec.spec_filter_verdict (thorough: also all 7-token strings). distinct = '
         'distinct case texts; non-trivial = rejected by at least one of the two validations || ENGINE: the histories of the engine area (the simulated broker '
         'announces Maximum QoS, Retain Available, Wildcard / Shared Subscription Available = 0 and small Maximum Packet Sizes at random) with the wire '
         'monitor mon_c16_wire: nothing on the wire exceeds what the CONNACK of that connection announced.'}

META = {'design_ref': 'DESIGN.md section 7 / C16',
 'level_note': 'Trusted: Coq kernel; the tie (facade, harness, OCaml driver); the reading of MQTT 5 sections 1.5, 2.1, 3.x.2, 4.7, 4.8 written down in '
               'Validate/Spec.v.',
 'level_text': 'Coq theorems over a line-by-line model of the validation code and an independent specification predicate: every rule a validated packet can '
               'still violate is one of an explicit list of holes, each with a machine-checked witness (C16_sound, C16_sound_refuted_*); a conforming '
               'submitted packet is accepted except for two stated over-strict cases (C16_complete); the topic-filter grammar of the code equals the '
               'specification grammar for all strings (C16_filter_grammar, unbounded). The model and the specification predicate run against the '
               'implementation on every check. The wiring of the send-time check inside the engine (which packet form is validated, against which settings) is '
               'covered by the engine model (v_out is called at seat time with the resolution the encoder uses: lock-step correspondence) and by the wire '
               'monitor mon_c16_wire on the implementation trace: every PUBLISH / SUBSCRIBE / UNSUBSCRIBE / ack on the wire respects the Maximum QoS, Retain '
               'Available, Wildcard / Shared Subscription Available and (MQTT 5, size of the bytes actually sent, alias included) Maximum Packet Size of the '
               'last CONNACK. Bridge to the wire specification (C16_accepted_is_wire_valid, ValidateProofs/Bridge*.v): a PUBLISH / SUBSCRIBE / UNSUBSCRIBE / '
               'DISCONNECT value of the Rust packet type whose erased form passed validate_packet_outbound and which passed '
               'validate_packet_outbound_internal with its alias resolution satisfies Codec/ValidC2S.valid (the premise of the C02 round-trip '
               'theorems), given an engine-allocated packet id, a resolver\'s resolution and a length below 4 GiB; the send-time validator alone does '
               'not give this (C16_send_time_check_alone_insufficient: empty topic without alias, U+0000 in the topic, empty SUBSCRIBE / UNSUBSCRIBE, '
               'subscription identifier 0 pass it). The malformed-$share hole (D8) and the unchecked Subscription Identifiers Available flag (D4b) are '
               'no obstacles to wire well-formedness: such packets are well-formed MQTT packets that break rules of another kind.',
 'technique': 'machine-checked proof in Coq (case analysis over the validation code, induction over topic levels) + lock-step correspondence of the extracted '
              'model and specification monitor with the implementation, including an exhaustive filter table'}
