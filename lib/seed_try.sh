#!/bin/bash
# seed_try.sh <patch.diff> <check ids...>: apply a seeded change to /repo, run the given checks, undo it (reverse-apply).
set -u
PATCH=$1; shift
cd /verif
git -C /repo apply --check "$PATCH" || { echo "patch does not apply"; exit 2; }
git -C /repo apply "$PATCH"
mkdir -p /verif/build/seed_evidence
for c in "$@"; do
  cp /verif/evidence/$c.json /verif/build/seed_evidence/$c.clean.json 2>/dev/null
  out=$(./check $c 2>&1); rc=$?
  cp /verif/evidence/$c.json /verif/build/seed_evidence/$c.seeded.json 2>/dev/null
  cp /verif/build/seed_evidence/$c.clean.json /verif/evidence/$c.json 2>/dev/null   # the tracked evidence describes the unchanged tree
  echo "== $c exit=$rc"
  echo "$out" | grep -E "VIOLATION|KNOWN-FINDING|quick:" | cut -c1-300
done
git -C /repo apply -R "$PATCH"
git -C /repo status --short | head -5
