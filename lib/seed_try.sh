#!/bin/bash
# seed_try.sh <patch.diff> <check ids...>: run the given checks against a scratch worktree of /repo (HEAD + uncommitted hook
# state is NOT included: HEAD only) with the seeded change applied.  /repo itself is never touched (other work keeps running
# against it); the scratch tree is removed afterwards (build output: rm -rf /verif/build/target_alt /verif/build/harness_alt when a batch is done).
set -u
PATCH=$1; shift
WT=/tmp/seedrepo
cd /verif
git -C /repo worktree add -q --detach $WT HEAD || exit 2
trap 'git -C /repo worktree remove --force $WT 2>/dev/null' EXIT
# a seed written against an earlier HEAD (before a later fix: commit touched the same function) is merged three-way
if git -C $WT apply --check "$PATCH" 2>/dev/null; then git -C $WT apply "$PATCH"
elif git -C $WT apply --3way "$PATCH" 2>/dev/null; then echo "(patch applied with --3way onto the current HEAD)"
else echo "patch does not apply"; exit 2; fi
mkdir -p /verif/build/seed_evidence
for c in "$@"; do
  cp /verif/evidence/$c.json /verif/build/seed_evidence/$c.clean.json 2>/dev/null
  out=$(VERIF_REPO=$WT ./check $c 2>&1); rc=$?
  cp /verif/evidence/$c.json /verif/build/seed_evidence/$c.seeded.json 2>/dev/null
  cp /verif/build/seed_evidence/$c.clean.json /verif/evidence/$c.json 2>/dev/null   # the tracked evidence describes the unchanged tree
  echo "== $c exit=$rc"
  echo "$out" | grep -E "VIOLATION|KNOWN-FINDING|quick:" | cut -c1-300
done
