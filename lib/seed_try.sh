#!/bin/bash
# seed_try.sh <patch.diff> <check ids...>: apply a seeded change to /repo, run the given checks, undo it (reverse-apply).
set -u
PATCH=$1; shift
cd /verif
git -C /repo apply --check "$PATCH" || { echo "patch does not apply"; exit 2; }
git -C /repo apply "$PATCH"
for c in "$@"; do
  out=$(./check $c 2>&1); rc=$?
  echo "== $c exit=$rc"
  echo "$out" | grep -E "VIOLATION|KNOWN-FINDING|quick:" | cut -c1-300
done
git -C /repo apply -R "$PATCH"
git -C /repo status --short | head -5
