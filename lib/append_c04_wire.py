#!/usr/bin/env python3
# append run-level wire theorems to Properties/C04.v and C04_audit.v (statements obtained from Check in the file's own context)
import subprocess, re, sys, os
COQ='/verif/coq'
P=os.path.join(COQ,'Properties','C04.v'); A=os.path.join(COQ,'Properties','C04_audit.v')
base=open(P).read(); audit=open(A).read()
MARK="(* ---- run level: the sequence of transmissions of one operation"
if MARK in base:
    base=base[:base.index(MARK)].rstrip()+"\n"
AM="(* ---- run level wire theorems ---- *)"
if AM in audit:
    audit=audit[:audit.index(AM)].rstrip()+"\n"
imports="From GM Require Import EngineProofs.WFTrack EngineProofs.InboundSpec EngineProofs.AliasRunLog EngineProofs.DeliveryWireDefs EngineProofs.DeliveryWire EngineProofs.DeliveryWireLang EngineProofs.DeliveryWireDone EngineProofs.DeliveryWireThms EngineProofs.DeliveryWireInstance.\n"
thms=[("C04_run_machine_accepts","DeliveryWire.reachable_accepts"),
      ("C04_run_first_transmission","wire_first_transmission"),
      ("C04_run_no_second_publish","wire_no_second_publish"),
      ("C04_run_pubrel_after_pubrec","wire_pubrel_after_pubrec"),
      ("C04_run_retransmission","wire_retransmission"),
      ("C04_run_restart","wire_restart"),
      ("C04_run_nothing_after_completion","wire_nothing_after_completion"),
      ("C04_instance_machine_accepts","instance_accepts"),
      ("C04_instance_first_transmission","instance_first_transmission"),
      ("C04_instance_no_second_publish","instance_no_second_publish"),
      ("C04_instance_pubrel_after_pubrec","instance_pubrel_after_pubrec"),
      ("C04_instance_retransmission","instance_retransmission"),
      ("C04_instance_restart","instance_restart")]
exs=[("C04_wire_qos2_example","dw_qos2"),("C04_wire_qos1_dup_example","dw_qos1_dup"),("C04_wire_pubrel_twice_example","dw_pubrel_twice")]
ctx=base+"\n"+imports+"Set Printing Width 1000000.\nSet Printing Depth 100000.\n"+"".join("Check @%s.\n"%s for _,s in thms+exs)
open('ctx.v','w').write(ctx)
out=subprocess.run(['coqtop','-Q',COQ,'GM','-quiet','-batch','-l','ctx.v'],capture_output=True,text=True)
txt=out.stdout+out.stderr
stm={}
for n,s in thms+exs:
    short=s.split('.')[-1]
    m=re.search(r"^@?(?:[A-Za-z_.]*\.)?%s\s*\n?\s*:\s*(.*?)(?=^\S|\Z)"%re.escape(short),txt,flags=re.S|re.M)
    if not m:
        print("no statement for",s); print(txt[-3000:]); sys.exit(1)
    stm[n]=" ".join(m.group(1).split())
body=MARK+""" over a whole history (EngineProofs/DeliveryWire*.v).
   The delivery log of a history (run_dlog / dlog / i_dlog) lists, step by step, every encoder construction with its operation id
   (DO (OEncode id packet resolution ok)), every completed write (DO (ODone id)), connection open / close / reset, the processed
   incoming packets (DI item: which CONNACK ran the session rules, which PUBREC set the PUBREL slot of which operation) and the
   submissions (DS id packet).  C04_run_machine_accepts: the per-operation reference machine of DeliveryWireDefs.v accepts the log of
   EVERY history, for every operation id.  The other theorems read the accepted language at wire level; the instance versions are
   closed for the concrete engine of Engine/Instance.v. ---- *)
"""+imports+"\n"
aud=AM+"\n"+imports
for n,s in thms:
    body+="Theorem %s : %s.\nProof. exact @%s. Qed.\n\n"%(n,stm[n],s)
    aud+="Check %s : %s.\nPrint Assumptions %s.\n"%(n,stm[n],n)
body+="(* non-vacuity and witnesses, by computation on the concrete engine: the transmissions of a QoS 2 publish across three connections (PUBLISH, PUBREL after the PUBREC; PUBREL again on the session-present connection; PUBLISH restarted with DUP = 0 and another identifier on the connection without session); a QoS 1 publish retransmitted with DUP = 1 and the same identifier; a repeated PUBREC makes the PUBREL go out twice within one connection (so 'at most one PUBREL per connection' is NOT a theorem of the model: one per processed PUBREC) *)\n"
for n,s in exs:
    body+="Example %s : %s.\nProof. exact %s. Qed.\n\n"%(n,stm[n],s)
    aud+="Check %s : %s.\nPrint Assumptions %s.\n"%(n,stm[n],n)
if '--dry' in sys.argv:
    open('C04_new.v','w').write(base+"\n"+body); open('C04_audit_new.v','w').write(audit+aud)
else:
    open(P,'w').write(base+"\n"+body); open(A,'w').write(audit+aud)
print("ok",len(thms),len(exs))
