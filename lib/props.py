"""Per-property configuration of ./check."""

COMMON_TRUSTED = [
    "Coq 8.16.1 kernel (coqc; vm_compute used, native_compute not used)",
    "axioms: none declared; Print Assumptions of every property theorem must print 'Closed under the global context'",
    "extraction: ExtrOcamlBasic only (Extract Inductive for bool, option, unit, list, prod, sumbool, sumor); no Extract Constant; N/positive/Z/nat stay Coq datatypes",
    "tie: hand-written models checked against the implementation by the correspondence run (Rust facade src/verif/*, harness/, ocaml/driver/*.ml, lib/*.py are trusted for the tie only)",
]

PROPS = {
    "C19": {
        "coq_target": "Properties/C19.vo",
        "areas": [{"area": "c19", "quick": 3000, "thorough": 300000, "corpus": ["corpus/C19/d18.txt"]}],
        "rule": ("cases = (jitter, base, max, stability) drawn from a boundary pool (0, 1 ns, sub-ms, 1 s +-1 ns, base>max, 2^63 ns, Duration::MAX/2 +-1 ns, "
                 "Duration::MAX) x histories of wait / connection(stable for t) / connection(no CONNACK) events, replayed on MqttClientImpl through the facade and on "
                 "the extracted model in lock-step (waits and next_reconnect_period compared after every event; jittered waits checked against [0, bound)); "
                 "distinct = distinct (configuration, history) descriptions; non-trivial = history of at least 2 events"),
        "modelled": "client/mod.rs MqttClientImpl::new (back-off fields), clamp_reconnect_period, compute_uniform_jitter_period, advance_reconnect_period, reset rule of transition_to_state; client/config.rs ReconnectOptions::normalize",
        "not_modelled": "rand::thread_rng (oracle: any value in range), Instant::now() (stability comparison exercised at >= 60 ms from the boundary only)",
    },
}
