"""Manifest texts per property; NOT_APPLICABLE lists every property not (yet) claimed."""
HOOK_COMMITS = ["fba652c", "fbea427"]

META = {
    "C19": {
        "level_text": "Coq theorems over a model of the back-off state machine: for every accepted configuration and every history of wait / connection-success / connection-end events the emitted waits equal the formula min(base'*2^k, max') with k restarting exactly after a connection that outlived the stability period (C19_sequence, C19_kth_wait), never exceed the effective maximum (C19_never_exceeds_max), jitter stays in [0, bound) (C19_jitter_range), no overflow / empty range (C19_total). The model is run in lock-step against MqttClientImpl on generated configurations and histories on every check.",
        "design_ref": "DESIGN.md section 7 / C19",
        "level_note": "Trusted: Coq kernel; the tie (facade, harness, OCaml driver); rand::thread_rng modelled as an arbitrary in-range oracle; the stability comparison against Instant::now() is exercised only >= 60 ms away from the boundary.",
        "technique": "machine-checked proof in Coq (induction over event histories) + lock-step correspondence of the extracted model with the implementation",
    },
}

_pending = "not claimed yet: the Coq model and its correspondence check for this property are still being built (work in progress, see DESIGN.md section 11); the technique applies"
NOT_APPLICABLE = {("C%02d" % i): _pending for i in range(1, 21)}
