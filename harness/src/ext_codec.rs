// Extension commands for area "codec" (owned by the builder of that area).
// Return None when the command is not one of this module's.
#[allow(unused_variables)]
pub fn handle(toks: &[&str]) -> Option<Result<String, String>> {
    None
}
