// Extension commands for area "aws" (property C20): the AWS IoT builder glue of gneiss-mqtt-aws,
// through its add-only hooks `gneiss_mqtt_aws::verif` and `gneiss_mqtt::verif::options`.
// Return None when the command is not one of this module's.
//
//   AWSENC x<bytes>          -> ok x<urlencoding::encode_binary> (x<urlencoding::encode> | - when not UTF-8)
//   AWSENCTABLE              -> ok e0,e1,...,e255   e_b = hex token of the encoding of the single byte b
//                               (encode_binary; for b < 128 also checked equal to encode(&str), else `bad`)
//   AWSAUTH <auth6>          -> ok x<final username> (x<password>|-) [x<param>,...]
//        auth6 = name sig key value user pass, each `-` (absent) or x<hex>; signed authorizer iff sig is present
//   AWSCONN NOAUTH <connect options>        -> ok <final connect options>
//   AWSCONN AUTH <auth6> <connect options>  -> ok <final connect options>
//        connect options text as in gneiss_mqtt::verif::options (keepalive rejoin clientid username password sei
//        rri rpi recvmax tam maxpkt willdelay up NOWILL|WILL <publish>)
//   AWSDEF <client options 11 tokens>       -> ok <factory token of the input> <client options after apply_aws_defaults>
//   AWSCODEFAULT             -> ok <ConnectOptions::builder().build()>       (what build_tokio / build_threaded use when the
//   AWSCLDEFAULT             -> ok <MqttClientOptions::builder().build()>     user registered no options with the AWS builder)
// Every call runs under catch_unwind: a panic is answered `panic`.

use gneiss_mqtt::verif::{options, text};
use gneiss_mqtt_aws::verif as aws;

fn opt_string(tok: &str) -> Result<Option<String>, String> {
    if tok == "-" { return Ok(None); }
    String::from_utf8(text::unhex(tok)?).map(Some).map_err(|_| "invalid utf8".to_string())
}

fn opt_bytes(tok: &str) -> Result<Option<Vec<u8>>, String> {
    if tok == "-" { Ok(None) } else { Ok(Some(text::unhex(tok)?)) }
}

struct Auth { name: Option<String>, sig: Option<String>, key: Option<String>, value: Option<String>, user: Option<String>, pass: Option<Vec<u8>> }

fn parse_auth(toks: &[&str]) -> Result<Auth, String> {
    if toks.len() != 6 { return Err("auth: need 6 tokens".to_string()); }
    let a = Auth { name: opt_string(toks[0])?, sig: opt_string(toks[1])?, key: opt_string(toks[2])?, value: opt_string(toks[3])?,
                   user: opt_string(toks[4])?, pass: opt_bytes(toks[5])? };
    if a.sig.is_some() != a.key.is_some() || a.sig.is_some() != a.value.is_some() {
        return Err("auth: signature, token key and token value go together".to_string());
    }
    Ok(a)
}

fn input_of(a: &Auth) -> aws::CustomAuthInput<'_> {
    aws::CustomAuthInput {
        authorizer_name: a.name.as_deref(),
        signed: match (&a.sig, &a.key, &a.value) { (Some(s), Some(k), Some(v)) => Some((s.as_str(), k.as_str(), v.as_str())), _ => None },
        username: a.user.as_deref(),
        password: a.pass.as_deref(),
    }
}

fn run(toks: &[&str]) -> Result<String, String> {
    match toks[0] {
        "AWSENC" => {
            let data = text::unhex(toks.get(1).ok_or("short")?)?;
            let bin = aws::url_encode_binary(&data);
            let s = match std::str::from_utf8(&data) { Ok(s) => text::hex(aws::url_encode(s).as_bytes()), Err(_) => "-".to_string() };
            Ok(format!("ok {} {}", text::hex(bin.as_bytes()), s))
        }
        "AWSENCTABLE" => {
            let mut items = Vec::with_capacity(256);
            for b in 0..=255u8 {
                let bin = aws::url_encode_binary(&[b]);
                if b < 128 {
                    let one = [b];
                    let s = std::str::from_utf8(&one).map_err(|_| "ascii".to_string())?;
                    if aws::url_encode(s) != bin { return Err(format!("encode and encode_binary differ on byte {}", b)); }
                }
                items.push(text::hex(bin.as_bytes()));
            }
            Ok(format!("ok {}", items.join(",")))
        }
        "AWSAUTH" => {
            let a = parse_auth(&toks[1..])?;
            let input = input_of(&a);
            let built = aws::build_custom_auth(&input);
            let params: Vec<String> = aws::query_params(&input).iter().map(|p| text::hex(p.as_bytes())).collect();
            let pass = match aws::custom_auth_password(&built) { Some(p) => text::hex(p), None => "-".to_string() };
            Ok(format!("ok {} {} [{}]", text::hex(aws::custom_auth_username(&built).as_bytes()), pass, params.join(",")))
        }
        "AWSCONN" => {
            let (auth, rest) = match toks.get(1) {
                Some(&"NOAUTH") => (None, &toks[2..]),
                Some(&"AUTH") => {
                    if toks.len() < 8 { return Err("AWSCONN: short".to_string()); }
                    let a = parse_auth(&toks[2..8])?;
                    (Some(aws::build_custom_auth(&input_of(&a))), &toks[8..])
                }
                _ => { return Err("AWSCONN: NOAUTH or AUTH".to_string()); }
            };
            let user = options::connect_options_from_text(rest)?;
            match aws::final_connect_options(auth, user) {
                Ok(fin) => Ok(format!("ok {}", options::connect_options_to_text(&fin))),
                Err(e) => Ok(format!("err:{}", text::error_kind(&e))),
            }
        }
        "AWSDEF" => {
            let user = options::client_options_from_text(&toks[1..])?;
            let token = options::factory_token(&user);
            let fin = aws::aws_defaults(user);
            Ok(format!("ok {} {}", token, options::client_options_to_text(&fin)))
        }
        "AWSCODEFAULT" => Ok(format!("ok {}", options::connect_options_to_text(&gneiss_mqtt::client::config::ConnectOptions::builder().build()))),
        "AWSCLDEFAULT" => Ok(format!("ok {}", options::client_options_to_text(&gneiss_mqtt::client::config::MqttClientOptions::builder().build()))),
        _ => Err("internal".to_string()),
    }
}

pub fn handle(toks: &[&str]) -> Option<Result<String, String>> {
    match toks[0] {
        "AWSENC" | "AWSENCTABLE" | "AWSAUTH" | "AWSCONN" | "AWSDEF" | "AWSCODEFAULT" | "AWSCLDEFAULT" => {
            let owned: Vec<String> = toks.iter().map(|t| t.to_string()).collect();
            let r = std::panic::catch_unwind(move || {
                let refs: Vec<&str> = owned.iter().map(|s| s.as_str()).collect();
                run(&refs)
            });
            Some(match r { Ok(r) => r, Err(_) => Ok("panic".to_string()) })
        }
        _ => None,
    }
}
