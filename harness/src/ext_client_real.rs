// REAL tokio / threaded clients (gneiss_mqtt::client::new_tokio_client / new_threaded_client, the
// public generic constructors) on scripted in-memory transports with a minimal scripted broker
// behind them.  One command = one scenario:
//
//   RUN <tokio|threaded> <connect_timeout_ms|max> <user script> ; <connection script> ; <connection script> ...
//
// user script (executed in order on the caller's side of the public client API):
//   start | stop | stopd (stop with a DISCONNECT packet) | close | drop (drop the client handle)
//   pub0:<len> | pub1:<len>       publish (QoS 0 / 1, payload of <len> bytes 'a'+i) -> result future / receiver
//   pubcb0:<len> | pubcb1:<len>   threaded only: publish_with_callback
//   sleep:<ms> | wait:<Event>:<n> wait until the n-th <Event> (Attempt, Success, Failure, Disconnection, Stopped) was seen (<= 1500 ms)
// connection script (one per connection attempt, in order; attempts beyond the list are refused):
//   conn=ok|refuse|stall
//   w=<r,r,...>    results of successive write calls, then "accept everything":  <n> accept at most n bytes | b would-block/pending
//                  | z Ok(0) | i Interrupted | e error
//   ack=ok|fail|none          CONNACK sent once the whole CONNECT arrived
//   ackdelay=<ms>             the CONNACK is released <ms> after the CONNECT arrived (keeps the handshake open)
//   frag=<n>                  reads deliver at most n bytes
//   end=stay | eof0 | eofack:<ms> | errack:<ms> | eofpk:<n>   EOF immediately / EOF or read error <ms> after the CONNACK /
//                  EOF after n client packets following the CONNECT
// The broker answers PUBLISH QoS 1 with PUBACK, SUBSCRIBE with SUBACK, PINGREQ with PINGRESP, and closes on DISCONNECT.
//
// answer: ok ev=[<client events>] conns=[<bytes the transport accepted, per connection, hex>|...] res=[p<i>:<ok|err:Kind|NONE>,...]
//            notes=[...]      NONE = the operation's result was still not delivered when the scenario ended (grace 200 ms)

use gneiss_mqtt::client::config::*;
use gneiss_mqtt::client::*;
use gneiss_mqtt::error::GneissError;
use gneiss_mqtt::mqtt::*;
use gneiss_mqtt::verif::client2::client_event_to_text;
use gneiss_mqtt::verif::text::{error_kind, hex};

use std::collections::VecDeque;
use std::io::{ErrorKind, Read, Write};
use std::pin::Pin;
use std::sync::{Arc, Mutex};
use std::task::{Context, Poll, Waker};
use std::time::{Duration, Instant};

#[derive(Clone, Debug, PartialEq)]
enum W { Accept(usize), Block, Zero, Interrupted, Error }
#[derive(Clone, Debug, PartialEq)]
enum ConnMode { Ok, Refuse, Stall }
#[derive(Clone, Debug, PartialEq)]
enum Ack { Ok, Fail, None }
#[derive(Clone, Debug, PartialEq)]
enum End { Stay, Eof0, EofAck(u64), ErrAck(u64), EofPackets(usize) }

#[derive(Clone, Debug)]
struct ConnScript { conn: ConnMode, writes: Vec<W>, ack: Ack, ack_delay_ms: u64, frag: usize, end: End, no_pingresp: bool, no_puback: bool,
                    }   // quiet=ping : PINGREQ is not answered; quiet=pub : PUBLISH is not acknowledged; quiet=both

#[derive(Clone, Debug)]
enum Act { Start, Stop, StopD, Close, DropHandle, Publish(u8, usize, bool), PublishT(u8, usize, u64), Sleep(u64), Wait(String, usize) }
// pubt1:<len>:<ms> = publish QoS 1 with an ack timeout of <ms>

struct Scenario { threaded: bool, connect_timeout_ms: u64, acts: Vec<Act>, conns: Vec<ConnScript>,
                  keep_alive: Option<u16>, ping_timeout_ms: Option<u64> }   // ka=<seconds> pto=<ms> among the user tokens

fn parse_scenario(toks: &[&str]) -> Result<Scenario, String> {
    if toks.len() < 2 { return Err("RUN: short".to_string()); }
    let threaded = match toks[0] { "tokio" => false, "threaded" => true, _ => return Err("RUN: driver".to_string()) };
    let connect_timeout_ms = if toks[1] == "max" { u64::MAX } else { toks[1].parse::<u64>().map_err(|_| "bad timeout")? };
    let mut sections: Vec<Vec<&str>> = vec![vec![]];
    for t in &toks[2..] { if *t == ";" { sections.push(vec![]); } else { sections.last_mut().unwrap().push(*t); } }
    let mut acts = Vec::new();
    let mut keep_alive: Option<u16> = None;
    let mut ping_timeout_ms: Option<u64> = None;
    for t in &sections[0] {
        if let Some(v) = t.strip_prefix("ka=") { keep_alive = Some(v.parse::<u16>().map_err(|_| "ka")?); continue; }
        if let Some(v) = t.strip_prefix("pto=") { ping_timeout_ms = Some(v.parse::<u64>().map_err(|_| "pto")?); continue; }
        let parts: Vec<&str> = t.split(':').collect();
        let num = |i: usize| -> Result<u64, String> { parts.get(i).ok_or("missing number")?.parse::<u64>().map_err(|_| format!("bad number in {}", t)) };
        acts.push(match parts[0] {
            "start" => Act::Start, "stop" => Act::Stop, "stopd" => Act::StopD, "close" => Act::Close, "drop" => Act::DropHandle,
            "pub0" => Act::Publish(0, num(1)? as usize, false), "pub1" => Act::Publish(1, num(1)? as usize, false),
            "pubcb0" => Act::Publish(0, num(1)? as usize, true), "pubcb1" => Act::Publish(1, num(1)? as usize, true),
            "pubt1" => Act::PublishT(1, num(1)? as usize, num(2)?),
            "sleep" => Act::Sleep(num(1)?),
            "wait" => Act::Wait(parts.get(1).ok_or("wait: event")?.to_string(), num(2)? as usize),
            _ => return Err(format!("unknown action {}", t)),
        });
    }
    let mut conns = Vec::new();
    for sec in &sections[1..] {
        let mut c = ConnScript { conn: ConnMode::Ok, writes: vec![], ack: Ack::Ok, ack_delay_ms: 0, frag: usize::MAX, end: End::Stay, no_pingresp: false, no_puback: false };
        for t in sec {
            let (k, v) = t.split_once('=').ok_or(format!("bad connection token {}", t))?;
            match k {
                "conn" => c.conn = match v { "ok" => ConnMode::Ok, "refuse" => ConnMode::Refuse, "stall" => ConnMode::Stall, _ => return Err("conn".to_string()) },
                "w" => for r in v.split(',') {
                    if r.is_empty() { continue; }
                    c.writes.push(match r { "b" => W::Block, "z" => W::Zero, "i" => W::Interrupted, "e" => W::Error,
                        n => W::Accept(n.parse::<usize>().map_err(|_| format!("bad write result {}", n))?) });
                },
                "ack" => c.ack = match v { "ok" => Ack::Ok, "fail" => Ack::Fail, "none" => Ack::None, _ => return Err("ack".to_string()) },
                "ackdelay" => c.ack_delay_ms = v.parse::<u64>().map_err(|_| "ackdelay")?,
                "quiet" => { c.no_pingresp = v == "ping" || v == "both"; c.no_puback = v == "pub" || v == "both"; }
                "frag" => c.frag = v.parse::<usize>().map_err(|_| "frag")?.max(1),
                "end" => {
                    let p: Vec<&str> = v.split(':').collect();
                    let n = || -> Result<u64, String> { p.get(1).ok_or("end: number")?.parse::<u64>().map_err(|_| "end: number".to_string()) };
                    c.end = match p[0] { "stay" => End::Stay, "eof0" => End::Eof0, "eofack" => End::EofAck(n()?), "errack" => End::ErrAck(n()?),
                        "eofpk" => End::EofPackets(n()? as usize), _ => return Err("end".to_string()) };
                }
                _ => return Err(format!("unknown connection key {}", k)),
            }
        }
        conns.push(c);
    }
    Ok(Scenario { threaded, connect_timeout_ms, acts, conns, keep_alive, ping_timeout_ms })
}

// ---------------------------------------------------------------------------------------------
// one scripted connection: transport behaviour + broker
// ---------------------------------------------------------------------------------------------

struct ConnState {
    script: ConnScript,
    wire: Vec<u8>,            // every byte the transport accepted, in order
    parse: Vec<u8>,           // not yet parsed client bytes
    inbound: VecDeque<u8>,    // server -> client bytes not yet read
    widx: usize,
    got_connect: bool,
    packets_after_connect: usize,
    eof: bool,
    read_error: bool,
    eof_at: Option<Instant>,
    err_at: Option<Instant>,
    ack_at: Option<Instant>,
    read_waker: Option<Waker>,
    write_calls: usize,
    flushes: usize,
}

enum WriteOutcome { Wrote(usize), Block, Interrupted, Error }
enum ReadOutcome { Data(usize), Eof, Error, Empty }

impl ConnState {
    fn new(script: ConnScript) -> ConnState {
        let eof = script.end == End::Eof0;
        ConnState { script, wire: vec![], parse: vec![], inbound: VecDeque::new(), widx: 0, got_connect: false, packets_after_connect: 0,
                    eof, read_error: false, eof_at: None, err_at: None, ack_at: None, read_waker: None, write_calls: 0, flushes: 0 }
    }

    fn wake_reader(&mut self) { if let Some(w) = self.read_waker.take() { w.wake(); } }

    fn on_write(&mut self, buf: &[u8]) -> WriteOutcome {
        self.write_calls += 1;
        let directive = if self.widx < self.script.writes.len() { let d = self.script.writes[self.widx].clone(); self.widx += 1; d } else { W::Accept(usize::MAX) };
        match directive {
            W::Accept(n) => { let k = n.min(buf.len()); self.accept(&buf[..k]); WriteOutcome::Wrote(k) }
            W::Zero => WriteOutcome::Wrote(0),
            W::Block => WriteOutcome::Block,
            W::Interrupted => WriteOutcome::Interrupted,
            W::Error => WriteOutcome::Error,
        }
    }

    fn accept(&mut self, bytes: &[u8]) {
        self.wire.extend_from_slice(bytes);
        self.parse.extend_from_slice(bytes);
        loop {
            // fixed header: type/flags, variable-length remaining length
            if self.parse.len() < 2 { break; }
            let mut remaining: usize = 0; let mut shift = 0; let mut idx = 1; let mut complete = false;
            while idx < self.parse.len() && idx <= 4 {
                let b = self.parse[idx]; remaining |= ((b & 0x7f) as usize) << shift; shift += 7; idx += 1;
                if b & 0x80 == 0 { complete = true; break; }
            }
            if !complete { break; }
            if self.parse.len() < idx + remaining { break; }
            let packet: Vec<u8> = self.parse.drain(..idx + remaining).collect();
            self.broker(&packet, idx);
        }
    }

    fn broker(&mut self, packet: &[u8], header_len: usize) {
        let kind = packet[0] >> 4;
        let body = &packet[header_len..];
        if kind == 1 {
            self.got_connect = true;
            if self.script.ack != Ack::None {
                if self.script.ack_delay_ms == 0 { self.release_connack(); }
                else { self.ack_at = Some(Instant::now() + Duration::from_millis(self.script.ack_delay_ms)); }
            }
        } else {
            self.packets_after_connect += 1;
            match kind {
                3 => {
                    let qos = (packet[0] >> 1) & 3;
                    if qos > 0 && body.len() >= 2 && !self.script.no_puback {
                        let tl = ((body[0] as usize) << 8) | body[1] as usize;
                        if body.len() >= 2 + tl + 2 { self.inbound.extend([if qos == 1 { 0x40u8 } else { 0x50u8 }, 2, body[2 + tl], body[2 + tl + 1]]); }
                    }
                }
                8 => if body.len() >= 2 { self.inbound.extend([0x90u8, 4, body[0], body[1], 0, 0]); },
                12 => if !self.script.no_pingresp { self.inbound.extend([0xD0u8, 0]) },
                14 => self.eof = true,
                _ => {}
            }
            if let End::EofPackets(n) = self.script.end { if self.packets_after_connect >= n { self.eof = true; } }
        }
        self.wake_reader();
    }

    fn release_connack(&mut self) {
        self.ack_at = None;
        match self.script.ack {
            Ack::Ok => self.inbound.extend([0x20u8, 3, 0, 0, 0]),
            Ack::Fail => self.inbound.extend([0x20u8, 3, 0, 0x87, 0]),
            Ack::None => {}
        }
        match self.script.end {
            End::EofAck(ms) => self.eof_at = Some(Instant::now() + Duration::from_millis(ms)),
            End::ErrAck(ms) => self.err_at = Some(Instant::now() + Duration::from_millis(ms)),
            _ => {}
        }
    }

    fn on_read(&mut self, dst: &mut [u8]) -> ReadOutcome {
        if let Some(t) = self.ack_at { if Instant::now() >= t { self.release_connack(); } }
        if let Some(t) = self.err_at { if Instant::now() >= t { self.read_error = true; } }
        if let Some(t) = self.eof_at { if Instant::now() >= t { self.eof = true; } }
        if self.read_error { return ReadOutcome::Error; }
        if !self.inbound.is_empty() {
            let n = dst.len().min(self.script.frag).min(self.inbound.len());
            for slot in dst.iter_mut().take(n) { *slot = self.inbound.pop_front().unwrap(); }
            return ReadOutcome::Data(n);
        }
        if self.eof { return ReadOutcome::Eof; }
        ReadOutcome::Empty
    }

    fn next_deadline(&self) -> Option<Instant> { self.ack_at.or(self.eof_at).or(self.err_at) }
}

type Conn = Arc<Mutex<ConnState>>;

struct World { scripts: Vec<ConnScript>, attempts: usize, conns: Vec<Conn> }

impl World {
    fn next_connection(&mut self) -> (ConnMode, Option<Conn>) {
        let idx = self.attempts; self.attempts += 1;
        if idx >= self.scripts.len() { return (ConnMode::Refuse, None); }
        let script = self.scripts[idx].clone();
        match script.conn {
            ConnMode::Ok => { let c = Arc::new(Mutex::new(ConnState::new(script))); self.conns.push(c.clone()); (ConnMode::Ok, Some(c)) }
            m => (m, None),
        }
    }
}

fn io_err(kind: ErrorKind) -> std::io::Error { std::io::Error::new(kind, "scripted") }

// ---- threaded transport: non-blocking Read + Write ----
struct SyncStream { conn: Conn }
impl Read for SyncStream {
    fn read(&mut self, buf: &mut [u8]) -> std::io::Result<usize> {
        match self.conn.lock().unwrap().on_read(buf) {
            ReadOutcome::Data(n) => Ok(n), ReadOutcome::Eof => Ok(0),
            ReadOutcome::Error => Err(io_err(ErrorKind::ConnectionReset)), ReadOutcome::Empty => Err(io_err(ErrorKind::WouldBlock)),
        }
    }
}
impl Write for SyncStream {
    fn write(&mut self, buf: &[u8]) -> std::io::Result<usize> {
        match self.conn.lock().unwrap().on_write(buf) {
            WriteOutcome::Wrote(n) => Ok(n), WriteOutcome::Block => Err(io_err(ErrorKind::WouldBlock)),
            WriteOutcome::Interrupted => Err(io_err(ErrorKind::Interrupted)), WriteOutcome::Error => Err(io_err(ErrorKind::BrokenPipe)),
        }
    }
    fn flush(&mut self) -> std::io::Result<()> { self.conn.lock().unwrap().flushes += 1; Ok(()) }
}

// ---- tokio transport ----
struct AsyncStream { conn: Conn }
impl tokio::io::AsyncRead for AsyncStream {
    fn poll_read(self: Pin<&mut Self>, cx: &mut Context<'_>, buf: &mut tokio::io::ReadBuf<'_>) -> Poll<std::io::Result<()>> {
        let mut c = self.conn.lock().unwrap();
        let mut tmp = vec![0u8; buf.remaining()];
        match c.on_read(&mut tmp) {
            ReadOutcome::Data(n) => { buf.put_slice(&tmp[..n]); Poll::Ready(Ok(())) }
            ReadOutcome::Eof => Poll::Ready(Ok(())),
            ReadOutcome::Error => Poll::Ready(Err(io_err(ErrorKind::ConnectionReset))),
            ReadOutcome::Empty => {
                c.read_waker = Some(cx.waker().clone());
                if let Some(deadline) = c.next_deadline() {
                    // wake the reader again when the scripted EOF / error is due
                    let waker = cx.waker().clone();
                    tokio::spawn(async move { tokio::time::sleep_until(tokio::time::Instant::from_std(deadline)).await; waker.wake(); });
                }
                Poll::Pending
            }
        }
    }
}
impl tokio::io::AsyncWrite for AsyncStream {
    fn poll_write(self: Pin<&mut Self>, cx: &mut Context<'_>, buf: &[u8]) -> Poll<std::io::Result<usize>> {
        match self.conn.lock().unwrap().on_write(buf) {
            WriteOutcome::Wrote(n) => Poll::Ready(Ok(n)),
            WriteOutcome::Block => { cx.waker().wake_by_ref(); Poll::Pending }
            WriteOutcome::Interrupted => Poll::Ready(Err(io_err(ErrorKind::Interrupted))),
            WriteOutcome::Error => Poll::Ready(Err(io_err(ErrorKind::BrokenPipe))),
        }
    }
    fn poll_flush(self: Pin<&mut Self>, _cx: &mut Context<'_>) -> Poll<std::io::Result<()>> { self.conn.lock().unwrap().flushes += 1; Poll::Ready(Ok(())) }
    fn poll_shutdown(self: Pin<&mut Self>, _cx: &mut Context<'_>) -> Poll<std::io::Result<()>> { Poll::Ready(Ok(())) }
}

// ---------------------------------------------------------------------------------------------

struct Collected { events: Arc<Mutex<Vec<String>>>, results: Arc<Mutex<Vec<Option<String>>>>, notes: Arc<Mutex<Vec<String>>> }

fn options(sc: &Scenario) -> (MqttClientOptions, ConnectOptions) {
    let mut b = MqttClientOptions::builder();
    b.with_connect_timeout(if sc.connect_timeout_ms == u64::MAX { Duration::MAX } else { Duration::from_millis(sc.connect_timeout_ms) });
    b.with_base_reconnect_period(Duration::from_millis(5));
    b.with_max_reconnect_period(Duration::from_millis(40));     // normalised to >= 1 s by the client; see notes
    b.with_reconnect_period_jitter(ExponentialBackoffJitterType::None);
    b.with_offline_queue_policy(OfflineQueuePolicy::PreserveAll);
    let mut cb = ConnectOptions::builder();
    cb.with_client_id("aa");
    cb.with_keep_alive_interval_seconds(sc.keep_alive);
    if let Some(ms) = sc.ping_timeout_ms { b.with_ping_timeout(Duration::from_millis(ms)); }
    (b.build(), cb.build())
}

fn payload(len: usize) -> Vec<u8> { (0..len).map(|i| b'a' + (i % 26) as u8).collect() }

fn publish_packet(qos: u8, len: usize) -> PublishPacket {
    let q = if qos == 0 { QualityOfService::AtMostOnce } else { QualityOfService::AtLeastOnce };
    PublishPacket::builder("t".to_string(), q).with_payload(payload(len)).build()
}

fn count_event(events: &Arc<Mutex<Vec<String>>>, name: &str) -> usize {
    events.lock().unwrap().iter().filter(|e| e.split(':').next() == Some(name)).count()
}

fn result_text<T>(r: &Result<T, GneissError>) -> String { match r { Ok(_) => "ok".to_string(), Err(e) => format!("err:{}", error_kind(e)) } }

fn render(world: &Arc<Mutex<World>>, col: &Collected) -> String {
    let w = world.lock().unwrap();
    let conns: Vec<String> = w.conns.iter().map(|c| { let c = c.lock().unwrap(); format!("{}/{}/{}", hex(&c.wire), c.write_calls, c.flushes) }).collect();
    let res: Vec<String> = col.results.lock().unwrap().iter().enumerate().map(|(i, r)| format!("p{}:{}", i, r.clone().unwrap_or("NONE".to_string()))).collect();
    format!("ok ev=[{}] conns=[{}] res=[{}] attempts={} notes=[{}]", col.events.lock().unwrap().join(","), conns.join("|"), res.join(","), w.attempts,
            col.notes.lock().unwrap().join(","))
}

fn run_tokio(sc: Scenario) -> String {
    let rt = match tokio::runtime::Builder::new_current_thread().enable_all().build() { Ok(rt) => rt, Err(e) => return format!("bad runtime {}", e) };
    let world = Arc::new(Mutex::new(World { scripts: sc.conns.clone(), attempts: 0, conns: vec![] }));
    let col = Collected { events: Arc::new(Mutex::new(vec![])), results: Arc::new(Mutex::new(vec![])), notes: Arc::new(Mutex::new(vec![])) };
    let out = rt.block_on(async {
        let (client_options, connect_options) = options(&sc);
        let factory_world = world.clone();
        let factory = Box::new(move || -> Pin<Box<dyn std::future::Future<Output = Result<AsyncStream, GneissError>> + Send>> {
            let (mode, conn) = factory_world.lock().unwrap().next_connection();
            Box::pin(async move {
                match mode {
                    ConnMode::Ok => Ok(AsyncStream { conn: conn.unwrap() }),
                    ConnMode::Refuse => Err(GneissError::from(io_err(ErrorKind::ConnectionRefused))),
                    ConnMode::Stall => { std::future::pending::<()>().await; unreachable!() }
                }
            })
        });
        let tokio_options = TokioOptions::builder(tokio::runtime::Handle::current()).build();
        let mut client = Some(new_tokio_client(client_options, connect_options, tokio_options, factory));
        let sink = col.events.clone();
        let _ = client.as_ref().unwrap().add_event_listener(Arc::new(move |event: Arc<ClientEvent>| { sink.lock().unwrap().push(client_event_to_text(&event)); }));
        for act in &sc.acts {
            match act {
                Act::Sleep(ms) => tokio::time::sleep(Duration::from_millis(*ms)).await,
                Act::Wait(name, n) => {
                    let deadline = Instant::now() + Duration::from_millis(1500);
                    while count_event(&col.events, name) < *n && Instant::now() < deadline { tokio::time::sleep(Duration::from_millis(1)).await; }
                    if count_event(&col.events, name) < *n { col.notes.lock().unwrap().push(format!("waitfail:{}:{}", name, n)); }
                }
                Act::DropHandle => { client = None; }
                other => {
                    let c = match client.as_ref() { Some(c) => c, None => { col.notes.lock().unwrap().push("no-handle".to_string()); continue; } };
                    match other {
                        Act::Start => if let Err(e) = c.start(None) { col.notes.lock().unwrap().push(format!("start:{}", error_kind(&e))); },
                        Act::Stop => if let Err(e) = c.stop(None) { col.notes.lock().unwrap().push(format!("stop:{}", error_kind(&e))); },
                        Act::StopD => {
                            let options = StopOptions::builder().with_disconnect_packet(DisconnectPacket::builder().build()).build();
                            if let Err(e) = c.stop(Some(options)) { col.notes.lock().unwrap().push(format!("stop:{}", error_kind(&e))); }
                        }
                        Act::Close => if let Err(e) = c.close() { col.notes.lock().unwrap().push(format!("close:{}", error_kind(&e))); },
                        Act::PublishT(qos, len, ms) => {
                            let idx = { let mut r = col.results.lock().unwrap(); r.push(None); r.len() - 1 };
                            let fut = c.publish(publish_packet(*qos, *len), Some(PublishOptions::builder().with_ack_timeout(Duration::from_millis(*ms)).build()));
                            let results = col.results.clone();
                            let t0 = Instant::now();
                            tokio::spawn(async move { let r = fut.await; results.lock().unwrap()[idx] = Some(format!("{}@{}", result_text(&r), t0.elapsed().as_millis())); });
                        }
                        Act::Publish(qos, len, _) => {
                            let idx = { let mut r = col.results.lock().unwrap(); r.push(None); r.len() - 1 };
                            let fut = c.publish(publish_packet(*qos, *len), None);
                            let results = col.results.clone();
                            tokio::spawn(async move { let r = fut.await; results.lock().unwrap()[idx] = Some(result_text(&r)); });
                        }
                        _ => {}
                    }
                }
            }
        }
        tokio::time::sleep(Duration::from_millis(200)).await;
        let text = render(&world, &col);
        if let Some(c) = client.as_ref() { let _ = c.close(); }
        tokio::time::sleep(Duration::from_millis(5)).await;
        text
    });
    rt.shutdown_timeout(Duration::from_millis(50));
    out
}

fn run_threaded(sc: Scenario) -> String {
    let world = Arc::new(Mutex::new(World { scripts: sc.conns.clone(), attempts: 0, conns: vec![] }));
    let col = Collected { events: Arc::new(Mutex::new(vec![])), results: Arc::new(Mutex::new(vec![])), notes: Arc::new(Mutex::new(vec![])) };
    let (client_options, connect_options) = options(&sc);
    let factory_world = world.clone();
    let factory: Arc<dyn Fn() -> Result<SyncStream, GneissError> + Send + Sync> = Arc::new(move || {
        let (mode, conn) = factory_world.lock().unwrap().next_connection();
        match mode {
            ConnMode::Ok => Ok(SyncStream { conn: conn.unwrap() }),
            ConnMode::Refuse => Err(GneissError::from(io_err(ErrorKind::ConnectionRefused))),
            ConnMode::Stall => { std::thread::sleep(Duration::from_millis(1500)); Err(GneissError::from(io_err(ErrorKind::TimedOut))) }
        }
    });
    let mut tb = ThreadedOptions::builder();
    tb.with_idle_service_sleep(Duration::from_millis(1));
    let mut client = Some(new_threaded_client(client_options, connect_options, tb.build(), factory));
    let sink = col.events.clone();
    let _ = client.as_ref().unwrap().add_event_listener(Arc::new(move |event: Arc<ClientEvent>| { sink.lock().unwrap().push(client_event_to_text(&event)); }));
    let mut receivers: Vec<(usize, SyncPublishResult)> = Vec::new();
    let poll_receivers = |receivers: &mut Vec<(usize, SyncPublishResult)>, col: &Collected| {
        receivers.retain(|(idx, r)| match r.try_recv() { Some(res) => { col.results.lock().unwrap()[*idx] = Some(result_text(&res)); false } None => true });
    };
    for act in &sc.acts {
        match act {
            Act::Sleep(ms) => std::thread::sleep(Duration::from_millis(*ms)),
            Act::Wait(name, n) => {
                let deadline = Instant::now() + Duration::from_millis(1500);
                while count_event(&col.events, name) < *n && Instant::now() < deadline { std::thread::sleep(Duration::from_millis(1)); }
                if count_event(&col.events, name) < *n { col.notes.lock().unwrap().push(format!("waitfail:{}:{}", name, n)); }
            }
            Act::DropHandle => { client = None; }
            other => {
                let c = match client.as_ref() { Some(c) => c, None => { col.notes.lock().unwrap().push("no-handle".to_string()); continue; } };
                match other {
                    Act::Start => if let Err(e) = c.start(None) { col.notes.lock().unwrap().push(format!("start:{}", error_kind(&e))); },
                    Act::Stop => if let Err(e) = c.stop(None) { col.notes.lock().unwrap().push(format!("stop:{}", error_kind(&e))); },
                    Act::StopD => {
                        let options = StopOptions::builder().with_disconnect_packet(DisconnectPacket::builder().build()).build();
                        if let Err(e) = c.stop(Some(options)) { col.notes.lock().unwrap().push(format!("stop:{}", error_kind(&e))); }
                    }
                    Act::Close => if let Err(e) = c.close() { col.notes.lock().unwrap().push(format!("close:{}", error_kind(&e))); },
                    Act::PublishT(qos, len, ms) => {
                        let idx = { let mut r = col.results.lock().unwrap(); r.push(None); r.len() - 1 };
                        let results = col.results.clone();
                        let t0 = Instant::now();
                        let callback: SyncPublishResultCallback = Box::new(move |r| {
                            results.lock().unwrap()[idx] = Some(format!("{}@{}", result_text(&r), t0.elapsed().as_millis()));
                        });
                        let options = PublishOptions::builder().with_ack_timeout(Duration::from_millis(*ms)).build();
                        if let Err(e) = c.publish_with_callback(publish_packet(*qos, *len), Some(options), callback) {
                            col.results.lock().unwrap()[idx] = Some(format!("err:{}", error_kind(&e)));
                        }
                    }
                    Act::Publish(qos, len, with_callback) => {
                        let idx = { let mut r = col.results.lock().unwrap(); r.push(None); r.len() - 1 };
                        if *with_callback {
                            let results = col.results.clone();
                            let callback: SyncPublishResultCallback = Box::new(move |r| {
                                let mut slots = results.lock().unwrap();
                                slots[idx] = Some(match &slots[idx] { None => result_text(&r), Some(prev) => format!("TWICE({},{})", prev, result_text(&r)) });
                            });
                            if let Err(e) = c.publish_with_callback(publish_packet(*qos, *len), None, callback) {
                                col.results.lock().unwrap()[idx] = Some(format!("err:{}", error_kind(&e)));
                            }
                        } else {
                            receivers.push((idx, c.publish(publish_packet(*qos, *len), None)));
                        }
                    }
                    _ => {}
                }
            }
        }
        poll_receivers(&mut receivers, &col);
    }
    let deadline = Instant::now() + Duration::from_millis(200);
    while Instant::now() < deadline { poll_receivers(&mut receivers, &col); std::thread::sleep(Duration::from_millis(2)); }
    let text = render(&world, &col);
    if let Some(c) = client.as_ref() { let _ = c.close(); }
    std::thread::sleep(Duration::from_millis(5));
    text
}

pub fn run(toks: &[&str]) -> Result<String, String> {
    let sc = parse_scenario(toks)?;
    let threaded = sc.threaded;
    // the scenario runs on its own thread so that a panic inside cannot take the harness down
    let handle = std::thread::spawn(move || if threaded { run_threaded(sc) } else { run_tokio(sc) });
    match handle.join() { Ok(text) => Ok(text), Err(_) => Ok("panic".to_string()) }
}
