// Extension commands for area "validate" (owned by the builder of that area).
// Return None when the command is not one of this module's.
//
// VDYNP <same arguments as VDYN>   validate_packet_outbound_internal under catch_unwind:
//                                  reply `ok` | `err:<Kind>` | `panic`
// VINP  <same arguments as VIN>    validate_packet_inbound_internal under catch_unwind
// FILTERX x<filter>                is_valid_topic_filter_internal under the 12 combinations of
//                                  wildcard (0,1) x shared (0,1) x no_local (-,0,1), in that nesting
//                                  order (wildcard outermost): reply = 12 characters 0/1
use gneiss_mqtt::verif::{misc, text};

fn guarded<F: FnOnce() -> Result<String, String>>(f: F) -> Result<String, String> {
    match std::panic::catch_unwind(std::panic::AssertUnwindSafe(f)) {
        Ok(r) => r,
        Err(_) => Ok("panic".to_string()),
    }
}

pub fn handle(toks: &[&str]) -> Option<Result<String, String>> {
    match toks[0] {
        "VDYNP" => Some(guarded(|| misc::validate_dynamic(&toks[1..]))),
        "VINP" => Some(guarded(|| misc::validate_inbound(&toks[1..]))),
        "FILTERX" => {
            if toks.len() < 2 { return Some(Err("FILTERX: short".to_string())); }
            let filter = match text::unhex(toks[1]) { Ok(f) => f, Err(e) => return Some(Err(e)) };
            let mut out = String::with_capacity(12);
            for wildcard in [false, true] {
                for shared in [false, true] {
                    for no_local in [None, Some(false), Some(true)] {
                        match misc::filter_valid(&filter, wildcard, shared, no_local) {
                            Ok(v) => out.push_str(&v),
                            Err(e) => return Some(Err(e)),
                        }
                    }
                }
            }
            Some(Ok(out))
        }
        _ => None,
    }
}
