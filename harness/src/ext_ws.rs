// Extension commands for area "ws" (property C13): the crate-private `WebsocketStreamWrapper`
// (client/synchronous/threaded/ws_stream.rs) over an in-memory transport, through the add-only facade
// gneiss_mqtt::verif::client2::ws.  Frames are produced / decoded by tungstenite's SERVER side here.
//
//   WSREAD <bufsize> <nreads> <item> <item> ...
//        items: b<hex> binary message | t<hex> text message | p ping | `|` end of a burst (the transport reports
//               WouldBlock once before the next burst) | `!` the transport fails
//        answer: ok <result of read 1> <result of read 2> ...   (ok:<n>:x<bytes> | wouldblock | err:<kind> | panic)
//   WSWRITE <w1,w2,...|-> <op> <op> ...
//        transport write script: <n> accept at most n bytes | b WouldBlock; exhausted = accept everything
//        ops: w<hex> Write::write | f Write::flush
//        answer: ok <result per op> wire=[x<payload>,...]   payloads of the binary messages a server decodes from
//                what the transport accepted (after draining the adapter's buffer with extra flushes)

use gneiss_mqtt::verif::client2::ws::{Adapter, Step};
use gneiss_mqtt::verif::text::{hex, unhex};
use std::io::Cursor;
use tungstenite::protocol::{Message, Role, WebSocket};

fn server_frames(messages: &[Message]) -> Result<Vec<u8>, String> {
    let mut server = WebSocket::from_raw_socket(Cursor::new(Vec::new()), Role::Server, None);
    for m in messages { server.write(m.clone()).map_err(|e| format!("frame: {}", e))?; }
    server.flush().map_err(|e| format!("frame flush: {}", e))?;
    Ok(server.get_ref().get_ref().clone())
}

fn ws_read(toks: &[&str]) -> Result<String, String> {
    if toks.len() < 2 { return Err("WSREAD: short".to_string()); }
    let size = toks[0].parse::<usize>().map_err(|_| "bufsize")?;
    let reads = toks[1].parse::<usize>().map_err(|_| "nreads")?;
    let mut adapter = Adapter::new();
    let mut burst: Vec<Message> = Vec::new();
    let mut steps: Vec<Step> = Vec::new();
    let mut flush_burst = |burst: &mut Vec<Message>, steps: &mut Vec<Step>| -> Result<(), String> {
        if !burst.is_empty() { steps.push(Step::Data(server_frames(burst)?)); burst.clear(); }
        Ok(())
    };
    for t in &toks[2..] {
        match t.chars().next() {
            Some('b') => burst.push(Message::Binary(unhex(&format!("x{}", &t[1..]))?)),
            Some('t') => burst.push(Message::Text(String::from_utf8(unhex(&format!("x{}", &t[1..]))?).map_err(|_| "text: utf8")?)),
            Some('p') => burst.push(Message::Ping(vec![1, 2])),
            Some('|') => { flush_burst(&mut burst, &mut steps)?; steps.push(Step::Block); }
            Some('!') => { flush_burst(&mut burst, &mut steps)?; steps.push(Step::Fail); }
            _ => return Err(format!("WSREAD: bad item {}", t)),
        }
    }
    flush_burst(&mut burst, &mut steps)?;
    adapter.shared.lock().unwrap().incoming.extend(steps);
    let mut out = vec!["ok".to_string()];
    for _ in 0..reads { out.push(adapter.read(size)); }
    Ok(out.join(" "))
}

fn ws_write(toks: &[&str]) -> Result<String, String> {
    if toks.is_empty() { return Err("WSWRITE: short".to_string()); }
    let mut adapter = Adapter::new();
    if toks[0] != "-" {
        for w in toks[0].split(',') {
            let step = if w == "b" { None } else { Some(w.parse::<usize>().map_err(|_| "write script")?) };
            adapter.shared.lock().unwrap().write_script.push_back(step);
        }
    }
    let mut out = vec!["ok".to_string()];
    for t in &toks[1..] {
        match t.chars().next() {
            Some('w') => out.push(adapter.write(&unhex(&format!("x{}", &t[1..]))?)),
            Some('f') => out.push(adapter.flush()),
            _ => return Err(format!("WSWRITE: bad op {}", t)),
        }
    }
    // drain whatever the adapter still buffers, then decode what the transport accepted as a server would
    adapter.shared.lock().unwrap().write_script.clear();
    for _ in 0..4 { let _ = adapter.flush(); }
    let written = adapter.shared.lock().unwrap().written.clone();
    let mut server = WebSocket::from_raw_socket(Cursor::new(written), Role::Server, None);
    let mut payloads = Vec::new();
    loop {
        match server.read() {
            Ok(Message::Binary(d)) => payloads.push(hex(&d)),
            Ok(Message::Text(s)) => payloads.push(format!("text:{}", hex(s.as_bytes()))),
            Ok(_) => {}
            Err(_) => break,
        }
    }
    out.push(format!("wire=[{}]", payloads.join(",")));
    Ok(out.join(" "))
}

pub fn handle(toks: &[&str]) -> Option<Result<String, String>> {
    match toks[0] {
        "WSREAD" => Some(ws_read(&toks[1..])),
        "WSWRITE" => Some(ws_write(&toks[1..])),
        _ => None,
    }
}
