// Extension commands for area "client" (properties C12 / C13): the client implementation
// `MqttClientImpl` through the add-only facade `gneiss_mqtt::verif::client2`, and REAL tokio /
// threaded clients on scripted in-memory transports (module `real` below, file ext_client_real.rs).
// Return None when the command is not one of this module's.
//
//   KNEW <11 client-option tokens> | <connect-option tokens>      new MqttClientImpl with a synchronous event listener
//   KOP START | STOP [<DISCONNECT packet>] | SHUTDOWN | LISTENER | USER <PUBLISH|SUBSCRIBE|UNSUBSCRIBE packet>
//   KTRANS <State>        transition_to_state          KCOMP   compute_optional_state_transition
//   KDATA x<hex>          handle_incoming_bytes        KWC     handle_write_completion
//   KSVC <fill>           handle_service into a 4096-byte buffer already holding <fill> bytes
//   KNST                  get_next_connected_service_time (due | later | never)
//   KERR <Kind>           apply_error                  KTABLE  the complete 5x5x3 transition table
// Every answer is `<outcome> <snapshot>` (see verif/client2.rs).
//   RUN ...               real-driver scenarios, see ext_client_real.rs

use gneiss_mqtt::verif::client2::Client2;
use gneiss_mqtt::verif::text;
use std::cell::RefCell;

#[path = "ext_client_real.rs"]
pub mod real;

thread_local! {
    static CLIENT: RefCell<Option<Client2>> = RefCell::new(None);
}

fn with_client<F: FnOnce(&mut Client2) -> Result<String, String>>(f: F) -> Result<String, String> {
    CLIENT.with(|c| {
        let mut guard = c.borrow_mut();
        match guard.as_mut() { Some(client) => f(client), None => Err("no client (KNEW first)".to_string()) }
    })
}

pub fn handle(toks: &[&str]) -> Option<Result<String, String>> {
    let r = match toks[0] {
        "KNEW" => Client2::new(&toks[1..]).map(|client| { let s = client.snapshot(); CLIENT.with(|c| *c.borrow_mut() = Some(client)); format!("ok {}", s) }),
        "KOP" => with_client(|c| c.operation(&toks[1..])),
        "KTRANS" => with_client(|c| c.transition_to_state(toks.get(1).ok_or("short")?)),
        "KCOMP" => with_client(|c| Ok(c.compute_optional_state_transition())),
        "KDATA" => with_client(|c| Ok(c.handle_incoming_bytes(&text::unhex(toks.get(1).ok_or("short")?)?))),
        "KWC" => with_client(|c| Ok(c.handle_write_completion())),
        "KSVC" => with_client(|c| Ok(c.handle_service(toks.get(1).ok_or("short")?.parse::<usize>().map_err(|_| "bad fill")?))),
        "KNST" => with_client(|c| Ok(c.next_service())),
        "KERR" => with_client(|c| c.apply_error(toks.get(1).ok_or("short")?)),
        "KTABLE" => with_client(|c| c.transition_table()),
        "RUN" => real::run(&toks[1..]),
        _ => return None,
    };
    Some(r)
}
