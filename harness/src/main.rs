// vharness: command interpreter over gneiss-mqtt's verification facade.
// Reads one command per line on stdin, answers with exactly one line on stdout.
// A line that cannot be parsed is answered with `bad <reason>`.

use gneiss_mqtt::verif::{client, codec, engine, misc, text};
use std::io::{BufRead, BufWriter, Write};

mod ext_alias;
mod ext_aws;
mod ext_client;
mod ext_codec;
mod ext_engine;
mod ext_validate;
mod ext_ws;

fn parse<T: std::str::FromStr>(t: &str) -> Result<T, String> {
    t.parse::<T>().map_err(|_| format!("bad number {}", t))
}

fn opt_u16(t: &str) -> Result<Option<u16>, String> {
    if t == "-" { Ok(None) } else { Ok(Some(parse::<u16>(t)?)) }
}

fn num_list(t: &str) -> Result<Vec<usize>, String> {
    let inner = t.strip_prefix('[').and_then(|x| x.strip_suffix(']')).ok_or("bad list")?;
    if inner.is_empty() { return Ok(vec![]); }
    inner.split(',').map(|x| parse::<usize>(x)).collect()
}

struct Session {
    engine: Option<engine::Engine>,
    client: Option<client::ClientImpl>,
    resolver: Option<misc::Resolver>,
    inbound: Option<misc::InboundResolver>,
}

fn handle(session: &mut Session, toks: &[&str]) -> Result<String, String> {
    if toks.is_empty() { return Err("empty".to_string()); }
    match toks[0] {
        "PING" => Ok("PONG".to_string()),

        // ---- codec ----
        // ENC version skip alias [capacities] [prefills] packet...
        "ENC" => {
            if toks.len() < 7 { return Err("ENC: short".to_string()); }
            codec::encode(toks[1], toks[2] == "1", opt_u16(toks[3])?, &num_list(toks[4])?, &num_list(toks[5])?, &toks[6..])
        }
        // DEC version maxsize xchunk xchunk ...
        "DEC" => {
            if toks.len() < 3 { return Err("DEC: short".to_string()); }
            let mut chunks = Vec::new();
            for t in &toks[3..] { chunks.push(text::unhex(t)?); }
            codec::decode(toks[1], parse::<u32>(toks[2])?, &chunks)
        }
        "TABLE" => misc::enum_table(toks.get(1).ok_or("TABLE: short")?),
        "POLICY" => misc::offline_policy(toks.get(1).ok_or("POLICY: short")?, &toks[2..]),
        "VSTATIC" => misc::validate_static(&toks[1..]),
        "VDYN" => misc::validate_dynamic(&toks[1..]),
        "VIN" => misc::validate_inbound(&toks[1..]),
        "TOPIC" => misc::topic_valid(&text::unhex(toks.get(1).ok_or("short")?)?),
        // FILTER xfilter wildcard shared nolocal(-|0|1)
        "FILTER" => {
            if toks.len() < 5 { return Err("FILTER: short".to_string()); }
            let nl = match toks[4] { "-" => None, "0" => Some(false), "1" => Some(true), _ => return Err("bad nolocal".to_string()) };
            misc::filter_valid(&text::unhex(toks[1])?, toks[2] == "1", toks[3] == "1", nl)
        }
        "CONNECTPKT" => misc::to_connect_packet(toks.get(1) == Some(&"1"), &toks[2..]),

        // ---- alias resolvers ----
        "RNEW" => { session.resolver = Some(misc::Resolver::new(toks.get(1).ok_or("short")?)?); Ok("ok".to_string()) }
        "RRESET" => { session.resolver.as_mut().ok_or("no resolver")?.reset(parse::<u16>(toks.get(1).ok_or("short")?)?); Ok("ok".to_string()) }
        "RRES" => {
            if toks.len() < 3 { return Err("RRES: short".to_string()); }
            session.resolver.as_mut().ok_or("no resolver")?.resolve(opt_u16(toks[1])?, &text::unhex(toks[2])?)
        }
        "INEW" => { session.inbound = Some(misc::InboundResolver::new(parse::<u16>(toks.get(1).ok_or("short")?)?)); Ok("ok".to_string()) }
        "IRESET" => { session.inbound.as_mut().ok_or("no resolver")?.reset(); Ok("ok".to_string()) }
        "IRES" => {
            if toks.len() < 3 { return Err("IRES: short".to_string()); }
            session.inbound.as_mut().ok_or("no resolver")?.resolve(opt_u16(toks[1])?, &text::unhex(toks[2])?)
        }

        // ---- engine ----
        "ENEW" => { session.engine = Some(engine::Engine::new(&toks[1..])?); Ok(format!("ok {}", session.engine.as_ref().unwrap().snapshot())) }
        "SUB" => {
            if toks.len() < 3 { return Err("SUB: short".to_string()); }
            session.engine.as_mut().ok_or("no engine")?.submit(parse::<u64>(toks[1])?, &toks[2..])
        }
        "OPEN" => { if toks.len() < 3 { return Err("short".to_string()); } Ok(session.engine.as_mut().ok_or("no engine")?.opened(parse::<u64>(toks[1])?, parse::<u64>(toks[2])?)) }
        "CLOSE" => Ok(session.engine.as_mut().ok_or("no engine")?.closed(parse::<u64>(toks.get(1).ok_or("short")?)?)),
        "DATA" => { if toks.len() < 3 { return Err("short".to_string()); } Ok(session.engine.as_mut().ok_or("no engine")?.incoming(parse::<u64>(toks[1])?, &text::unhex(toks[2])?)) }
        "WC" => Ok(session.engine.as_mut().ok_or("no engine")?.write_completion(parse::<u64>(toks.get(1).ok_or("short")?)?)),
        "SVC" => {
            if toks.len() < 3 { return Err("short".to_string()); }
            let prefill = if toks.len() > 3 { parse::<usize>(toks[3])? } else { 0 };
            Ok(session.engine.as_mut().ok_or("no engine")?.service(parse::<u64>(toks[1])?, parse::<usize>(toks[2])?, prefill))
        }
        "NST" => Ok(session.engine.as_mut().ok_or("no engine")?.next_service_time(parse::<u64>(toks.get(1).ok_or("short")?)?)),
        "RESET" => Ok(session.engine.as_mut().ok_or("no engine")?.reset(parse::<u64>(toks.get(1).ok_or("short")?)?)),
        "SETPID" => { session.engine.as_mut().ok_or("no engine")?.set_next_packet_id(parse::<u16>(toks.get(1).ok_or("short")?)?); Ok("ok".to_string()) }
        "SETTINGS" => Ok(session.engine.as_ref().ok_or("no engine")?.settings()),

        // ---- client implementation: back-off ----
        "BNEW" => { session.client = Some(client::ClientImpl::new(&toks[1..])?); Ok("ok".to_string()) }
        "BWAIT" => Ok(session.client.as_mut().ok_or("no client")?.advance_reconnect_period()),
        // real-time sleep (the stability comparison in transition_to_state reads Instant::now())
        "BSLEEP" => { std::thread::sleep(std::time::Duration::from_millis(parse::<u64>(toks.get(1).ok_or("short")?)?)); Ok("ok".to_string()) }
        "BNEXT" => Ok(format!("ok {}", session.client.as_ref().ok_or("no client")?.next_reconnect_period_nanos())),
        // BCONN age_ns|- : one Connecting -> Connected -> PendingReconnect cycle; with an age the
        // connection is marked successful that long ago before it ends
        "BCONN" => {
            let c = session.client.as_mut().ok_or("no client")?;
            c.set_desired_state("Connected")?;
            c.force_current_state("Stopped")?;
            let r1 = c.transition_to_state("Connecting")?;
            let r2 = c.transition_to_state("Connected")?;
            if let Some(t) = toks.get(1) { if *t != "-" { c.set_successful_connect_age(parse::<u64>(t)?); } }
            let r3 = c.transition_to_state("PendingReconnect")?;
            Ok(format!("{} | {} | {}", r1, r2, r3))
        }
        _ => {
            for h in [ext_codec::handle, ext_validate::handle, ext_alias::handle, ext_aws::handle, ext_client::handle, ext_ws::handle, ext_engine::handle] {
                if let Some(r) = h(toks) { return r; }
            }
            Err(format!("unknown command {}", toks[0]))
        }
    }
}

fn main() {
    std::panic::set_hook(Box::new(|_| {}));
    let stdin = std::io::stdin();
    let stdout = std::io::stdout();
    let mut out = BufWriter::new(stdout.lock());
    let mut session = Session { engine: None, client: None, resolver: None, inbound: None };
    for line in stdin.lock().lines() {
        let line = match line { Ok(l) => l, Err(_) => break };
        let toks: Vec<&str> = line.split_whitespace().collect();
        let response = match handle(&mut session, &toks) { Ok(r) => r, Err(e) => format!("bad {}", e.replace('\n', " ")) };
        let _ = writeln!(out, "{}", response);
        let _ = out.flush();
    }
}
